//! Seeded PRNG: everything a run decides is drawn from one of these.
//! SplitMix64 for seeding / hashing, xoshiro256** for the stream.

#[derive(Clone, Debug)]
pub struct Rng {
    s: [u64; 4],
    /// number of draws so far (goes into event logs; never influences output)
    pub draws: u64,
}

pub fn splitmix(x: &mut u64) -> u64 {
    *x = x.wrapping_add(0x9E3779B97F4A7C15);
    let mut z = *x;
    z = (z ^ (z >> 30)).wrapping_mul(0xBF58476D1CE4E5B9);
    z = (z ^ (z >> 27)).wrapping_mul(0x94D049BB133111EB);
    z ^ (z >> 31)
}

/// Stable 64-bit hash of a string (FNV-1a then splitmix finaliser).
pub fn hash_str(s: &str) -> u64 {
    let mut h: u64 = 0xcbf29ce484222325;
    for b in s.bytes() {
        h ^= b as u64;
        h = h.wrapping_mul(0x100000001b3);
    }
    let mut x = h;
    splitmix(&mut x)
}

pub fn hash_bytes(b: &[u8]) -> u64 {
    let mut h: u64 = 0xcbf29ce484222325;
    for b in b {
        h ^= *b as u64;
        h = h.wrapping_mul(0x100000001b3);
    }
    let mut x = h;
    splitmix(&mut x)
}

/// Seed of run `idx` of property `prop` under `tier` and VERIF_SEED `seed`.
pub fn run_seed(seed: u64, prop: &str, tier: &str, idx: u64) -> u64 {
    let mut x = seed ^ hash_str(prop).rotate_left(17) ^ hash_str(tier).rotate_left(41);
    let a = splitmix(&mut x);
    let mut y = a ^ idx.wrapping_mul(0xD1342543DE82EF95);
    splitmix(&mut y)
}

impl Rng {
    pub fn new(seed: u64) -> Self {
        let mut x = seed;
        let s = [
            splitmix(&mut x),
            splitmix(&mut x),
            splitmix(&mut x),
            splitmix(&mut x),
        ];
        Rng { s, draws: 0 }
    }

    /// Independent child stream (for sub-components that must not disturb the parent's order).
    pub fn fork(&mut self, tag: &str) -> Rng {
        let a = self.next_u64();
        Rng::new(a ^ hash_str(tag))
    }

    pub fn next_u64(&mut self) -> u64 {
        self.draws += 1;
        let result = self.s[1].wrapping_mul(5).rotate_left(7).wrapping_mul(9);
        let t = self.s[1] << 17;
        self.s[2] ^= self.s[0];
        self.s[3] ^= self.s[1];
        self.s[1] ^= self.s[2];
        self.s[0] ^= self.s[3];
        self.s[2] ^= t;
        self.s[3] = self.s[3].rotate_left(45);
        result
    }

    /// uniform in [0, n)  (n > 0)
    pub fn below(&mut self, n: u64) -> u64 {
        if n <= 1 {
            // still draw, so that the stream position does not depend on n
            self.next_u64();
            return 0;
        }
        // multiply-shift; bias negligible for our n
        ((self.next_u64() as u128 * n as u128) >> 64) as u64
    }

    /// uniform in [lo, hi] inclusive
    pub fn range(&mut self, lo: u64, hi: u64) -> u64 {
        debug_assert!(lo <= hi);
        lo + self.below(hi - lo + 1)
    }

    pub fn usize(&mut self, lo: usize, hi: usize) -> usize {
        self.range(lo as u64, hi as u64) as usize
    }

    pub fn chance(&mut self, num: u64, den: u64) -> bool {
        self.below(den) < num
    }

    pub fn pick<'a, T>(&mut self, v: &'a [T]) -> &'a T {
        &v[self.below(v.len() as u64) as usize]
    }

    pub fn bytes(&mut self, n: usize) -> Vec<u8> {
        let mut v = Vec::with_capacity(n);
        while v.len() < n {
            let x = self.next_u64().to_le_bytes();
            let take = (n - v.len()).min(8);
            v.extend_from_slice(&x[..take]);
        }
        v
    }

    pub fn shuffle<T>(&mut self, v: &mut [T]) {
        for i in (1..v.len()).rev() {
            let j = self.below(i as u64 + 1) as usize;
            v.swap(i, j);
        }
    }

    pub fn ident(&mut self, lo: usize, hi: usize) -> String {
        let n = self.usize(lo, hi);
        (0..n)
            .map(|_| (b'a' + self.below(26) as u8) as char)
            .collect()
    }
}
