//! SimNet: the simulated wire underneath the SDK's default HTTP stack (hook H3).
//! Scripted hosts; every request that reaches the wire is recorded verbatim.

use std::{
    io::Read,
    sync::Mutex,
};

use c2pa::http::HttpResolverError;
use http::{Request, Response};

#[derive(Clone, Debug)]
pub struct ReqRec {
    pub method: String,
    pub uri: String,
    pub headers: Vec<(String, String)>,
    pub body_len: usize,
    pub is_async: bool,
}

#[derive(Clone, Debug)]
pub struct Resp {
    pub status: u16,
    pub headers: Vec<(String, String)>,
    pub body: Vec<u8>,
    /// Some(n): the body stream fails with an I/O error after n bytes
    pub body_fail_after: Option<usize>,
    /// transport-level failure instead of a response
    pub transport_error: bool,
}

impl Resp {
    pub fn ok(body: Vec<u8>) -> Resp {
        Resp { status: 200, headers: vec![], body, body_fail_after: None, transport_error: false }
    }
    pub fn redirect(status: u16, location: &str) -> Resp {
        Resp { status, headers: vec![("location".into(), location.into())], body: vec![], body_fail_after: None, transport_error: false }
    }
    pub fn status(status: u16) -> Resp {
        Resp { status, headers: vec![], body: vec![], body_fail_after: None, transport_error: false }
    }
}

pub type Script = Box<dyn FnMut(&ReqRec, usize) -> Resp + Send>;

pub struct Net {
    pub log: Vec<ReqRec>,
    pub script: Script,
}

static NET: Mutex<Option<Net>> = Mutex::new(None);

struct FailingBody {
    data: Vec<u8>,
    pos: usize,
    fail_after: Option<usize>,
}

impl Read for FailingBody {
    fn read(&mut self, buf: &mut [u8]) -> std::io::Result<usize> {
        if let Some(f) = self.fail_after {
            if self.pos >= f {
                return Err(std::io::Error::other("simulated connection reset"));
            }
        }
        let mut n = buf.len().min(self.data.len() - self.pos);
        if let Some(f) = self.fail_after {
            n = n.min(f - self.pos);
        }
        buf[..n].copy_from_slice(&self.data[self.pos..self.pos + n]);
        self.pos += n;
        Ok(n)
    }
}

fn handle(req: Request<Vec<u8>>, is_async: bool) -> Result<Response<Box<dyn Read>>, HttpResolverError> {
    crate::turnstile::yield_point("wire");
    let rec = ReqRec {
        method: req.method().to_string(),
        uri: req.uri().to_string(),
        headers: req.headers().iter().map(|(k, v)| (k.as_str().to_lowercase(), v.to_str().unwrap_or("?").to_string())).collect(),
        body_len: req.body().len(),
        is_async,
    };
    let resp = {
        let mut g = NET.lock().unwrap_or_else(|e| e.into_inner());
        match g.as_mut() {
            None => Resp::status(599),
            Some(net) => {
                let n = net.log.len();
                net.log.push(rec.clone());
                (net.script)(&rec, n)
            }
        }
    };
    if resp.transport_error {
        return Err(HttpResolverError::Io(std::io::Error::other("simulated connection refused")));
    }
    let mut b = Response::builder().status(resp.status);
    for (k, v) in &resp.headers {
        b = b.header(k.as_str(), v.as_str());
    }
    let body: Box<dyn Read> = Box::new(FailingBody { data: resp.body, pos: 0, fail_after: resp.body_fail_after });
    b.body(body).map_err(HttpResolverError::Http)
}

fn wire_sync(req: Request<Vec<u8>>) -> Result<Response<Box<dyn Read>>, HttpResolverError> {
    handle(req, false)
}

fn wire_async(req: Request<Vec<u8>>) -> Result<Response<Box<dyn Read>>, HttpResolverError> {
    handle(req, true)
}

/// Install the simulated wire with `script`; every request is logged.
pub fn install(script: Script) {
    *NET.lock().unwrap_or_else(|e| e.into_inner()) = Some(Net { log: vec![], script });
    c2pa::verif::set_wire_sync(Some(wire_sync));
    c2pa::verif::set_wire_async(Some(wire_async));
}

/// Remove the wire and return what was seen on it.
pub fn uninstall() -> Vec<ReqRec> {
    c2pa::verif::set_wire_sync(None);
    c2pa::verif::set_wire_async(None);
    NET.lock().unwrap_or_else(|e| e.into_inner()).take().map(|n| n.log).unwrap_or_default()
}

pub fn log_len() -> usize {
    NET.lock().unwrap_or_else(|e| e.into_inner()).as_ref().map(|n| n.log.len()).unwrap_or(0)
}

// ------------------------------------------------------------------ URI / host grammar

use crate::rng::Rng;

pub const PUBLIC_HOSTS: [&str; 8] = [
    "example.com", "api.example.com", "cdn.assets.example.org", "Example.COM", "xn--bcher-kva.example", "8.8.8.8", "93.184.216.34", "example.com.",
];

/// hosts the statement lists as internal, in many spellings (the `url` crate normalises the
/// numeric IPv4 forms for http/https)
pub const INTERNAL_HOSTS: [&str; 34] = [
    "localhost", "LOCALHOST", "localhost.", "foo.localhost", "127.0.0.1", "127.1", "2130706433", "0x7f.0.0.1", "0177.0.0.1", "127.0.0.1.",
    "10.0.0.5", "172.16.3.4", "172.31.255.255", "192.168.1.1", "169.254.169.254", "0.0.0.0", "224.0.0.1", "239.255.255.255",
    "255.255.255.255", "192.0.2.7", "198.51.100.9", "203.0.113.200", "100.64.0.1", "100.127.255.254", "[::1]", "[::]", "[fc00::1]",
    "[fd12:3456::1]", "[fe80::1]", "[ff02::1]", "[::ffff:127.0.0.1]", "[::ffff:a00:1]", "[::ffff:169.254.169.254]", "[::ffff:192.168.0.1]",
];

/// generated, but not listed by the statement: only counted
pub const UNLISTED_HOSTS: [&str; 4] = ["[::7f00:1]", "[64:ff9b::7f00:1]", "192.0.0.1", "198.18.0.1"];

pub fn gen_url(r: &mut Rng, host: &str) -> String {
    let scheme = *r.pick(&["http", "https", "https", "HTTP"]);
    let port = match r.below(6) {
        0 => ":8080".to_string(),
        1 => if scheme.eq_ignore_ascii_case("https") { ":443".into() } else { ":80".into() },
        2 => ":8443".to_string(),
        _ => String::new(),
    };
    let user = if r.chance(1, 10) { "public@" } else { "" };
    let path = match r.below(4) {
        0 => "/".to_string(),
        1 => format!("/{}", r.ident(1, 8)),
        2 => format!("/{}/{}?q={}", r.ident(1, 5), r.ident(1, 5), r.below(100)),
        _ => String::new(),
    };
    format!("{scheme}://{user}{host}{port}{path}")
}

/// Our own classification of a URL's host against the address classes the statement lists.
/// None = cannot be parsed by the `url` crate (then nothing is demanded).
pub fn is_internal(url_s: &str) -> Option<bool> {
    let u = url::Url::parse(url_s).ok()?;
    let h = u.host()?;
    Some(match h {
        url::Host::Domain(d) => {
            let d = d.trim_end_matches('.').to_ascii_lowercase();
            d == "localhost" || d.ends_with(".localhost")
        }
        url::Host::Ipv4(a) => v4_internal(a.octets()),
        url::Host::Ipv6(a) => {
            let s = a.segments();
            if s[0] == 0 && s[1] == 0 && s[2] == 0 && s[3] == 0 && s[4] == 0 && s[5] == 0xffff {
                let o = [(s[6] >> 8) as u8, s[6] as u8, (s[7] >> 8) as u8, s[7] as u8];
                v4_internal(o)
            } else {
                a.is_loopback() || a.is_unspecified() || (s[0] & 0xfe00) == 0xfc00 || (s[0] & 0xffc0) == 0xfe80 || (s[0] & 0xff00) == 0xff00
            }
        }
    })
}

fn v4_internal(o: [u8; 4]) -> bool {
    let [a, b, c, _d] = o;
    a == 127 // loopback
        || a == 10 || (a == 172 && (16..=31).contains(&b)) || (a == 192 && b == 168) // private
        || (a == 169 && b == 254) // link-local
        || o == [0, 0, 0, 0] // unspecified
        || (224..=239).contains(&a) // multicast
        || o == [255, 255, 255, 255] // broadcast
        || (a == 192 && b == 0 && c == 2) || (a == 198 && b == 51 && c == 100) || (a == 203 && b == 0 && c == 113) // documentation
        || (a == 100 && (64..=127).contains(&b)) // shared address space
}
