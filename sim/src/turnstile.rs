//! Turnstile scheduler: real OS threads, but exactly one holds the token and runs; at every
//! seam call (`yield_point`) the PRNG (or a recorded decision list) picks who runs next.
//!
//! Threads created by the harness use `spawn`.  Threads created by the SDK (hash pipeline
//! worker) join through hook points `AboutToSpawn` / `ThreadEnter` / `ThreadExit` /
//! `JoinChildren` (sdk/src/verif.rs).  A scheduling decision is never taken while an announced
//! child has not parked yet, so the set of eligible threads is a function of the decisions so
//! far, never of OS timing.

use std::{
    cell::Cell,
    sync::{
        atomic::{AtomicBool, Ordering},
        Condvar, Mutex,
    },
    time::Duration,
};

use crate::rng::Rng;

#[derive(Clone, Copy, Debug, PartialEq, Eq)]
enum St {
    /// announced by AboutToSpawn, OS thread has not reached ThreadEnter yet
    Announced,
    Parked,
    Running,
    /// waiting for all children to be Done
    Joining,
    /// waiting for every other thread to be Done
    JoiningAll,
    Done,
}

struct Th {
    st: St,
    parent: Option<usize>,
}

struct State {
    gen: u64,
    threads: Vec<Th>,
    current: usize,
    rng: Rng,
    replay: Option<Vec<u32>>,
    decisions: Vec<u32>,
    trace_digest: u64,
    events: u64,
    switches: u64,
    /// FIFO of announced child ids waiting for their OS thread
    announced: Vec<usize>,
    keep_bias: u64,
}

static ACTIVE: AtomicBool = AtomicBool::new(false);
static STATE: Mutex<Option<State>> = Mutex::new(None);
static CV: Condvar = Condvar::new();

thread_local! {
    static ME: Cell<Option<(u64, usize)>> = const { Cell::new(None) };
}

fn mix(d: &mut u64, v: u64) {
    let mut x = *d ^ v.wrapping_mul(0x9E3779B97F4A7C15);
    *d = crate::rng::splitmix(&mut x);
}

fn stall() -> ! {
    eprintln!("HARNESS-ERROR turnstile stall: token holder silent for 300 s");
    std::process::exit(2);
}

pub struct Outcome {
    pub decisions: Vec<u32>,
    pub trace_digest: u64,
    pub events: u64,
    pub switches: u64,
    pub threads: usize,
}

/// Start a turnstile run; the calling thread becomes thread 0 and holds the token.
/// `keep_bias`: out of 8, how often the current thread simply keeps running when eligible.
pub fn begin(rng: Rng, replay: Option<Vec<u32>>, keep_bias: u64) {
    let mut g = STATE.lock().unwrap_or_else(|e| e.into_inner());
    let gen = g.as_ref().map(|s| s.gen + 1).unwrap_or(1);
    *g = Some(State {
        gen,
        threads: vec![Th {
            st: St::Running,
            parent: None,
        }],
        current: 0,
        rng,
        replay,
        decisions: Vec::new(),
        trace_digest: 0xabcdef,
        events: 0,
        switches: 0,
        announced: Vec::new(),
        keep_bias,
    });
    ME.with(|m| m.set(Some((gen, 0))));
    ACTIVE.store(true, Ordering::SeqCst);
    c2pa::verif::set_yield(Some(hook));
}

/// End the run: every parked thread is released to run freely to its end.
pub fn end() -> Outcome {
    c2pa::verif::set_yield(None);
    ACTIVE.store(false, Ordering::SeqCst);
    let mut g = STATE.lock().unwrap_or_else(|e| e.into_inner());
    let s = g.as_mut().expect("turnstile not started");
    let out = Outcome {
        decisions: std::mem::take(&mut s.decisions),
        trace_digest: s.trace_digest,
        events: s.events,
        switches: s.switches,
        threads: s.threads.len(),
    };
    for t in s.threads.iter_mut() {
        t.st = St::Done;
    }
    ME.with(|m| m.set(None));
    CV.notify_all();
    out
}

fn my_tid(s: &State) -> Option<usize> {
    ME.with(|m| m.get())
        .and_then(|(g, t)| if g == s.gen { Some(t) } else { None })
}

fn eligible(s: &State) -> Vec<usize> {
    let mut v = Vec::new();
    for (i, t) in s.threads.iter().enumerate() {
        match t.st {
            St::Parked | St::Running => v.push(i),
            St::Joining => {
                let kids_done = s
                    .threads
                    .iter()
                    .all(|c| c.parent != Some(i) || c.st == St::Done);
                if kids_done {
                    v.push(i);
                }
            }
            St::JoiningAll => {
                if s
                    .threads
                    .iter()
                    .enumerate()
                    .all(|(j, c)| j == i || c.st == St::Done)
                {
                    v.push(i);
                }
            }
            _ => {}
        }
    }
    v
}

/// Choose the next token holder. Caller holds the lock. Waits for announced threads first.
fn schedule<'a>(
    mut g: std::sync::MutexGuard<'a, Option<State>>,
    me: usize,
) -> std::sync::MutexGuard<'a, Option<State>> {
    // wait until no announced-but-not-parked thread remains
    loop {
        let s = g.as_ref().unwrap();
        if !s.threads.iter().any(|t| t.st == St::Announced) {
            break;
        }
        let (g2, to) = CV
            .wait_timeout(g, Duration::from_secs(300))
            .unwrap_or_else(|e| e.into_inner());
        g = g2;
        if to.timed_out() {
            stall();
        }
        if !ACTIVE.load(Ordering::SeqCst) {
            return g;
        }
    }
    let s = g.as_mut().unwrap();
    let el = eligible(s);
    if el.is_empty() {
        // nothing can run: only legal if everything is done
        return g;
    }
    let choice = if let Some(r) = s.replay.as_mut() {
        if r.is_empty() {
            // replay list exhausted: keep current if possible
            if el.contains(&me) {
                me
            } else {
                el[0]
            }
        } else {
            let c = r.remove(0) as usize;
            if el.contains(&c) {
                c
            } else if el.contains(&me) {
                me
            } else {
                el[0]
            }
        }
    } else if el.contains(&me) && s.rng.below(8) < s.keep_bias {
        me
    } else {
        el[s.rng.below(el.len() as u64) as usize]
    };
    s.decisions.push(choice as u32);
    if choice != s.current {
        s.switches += 1;
    }
    s.current = choice;
    CV.notify_all();
    g
}

fn wait_for_token<'a>(
    mut g: std::sync::MutexGuard<'a, Option<State>>,
    me: usize,
    gen: u64,
) -> std::sync::MutexGuard<'a, Option<State>> {
    loop {
        if !ACTIVE.load(Ordering::SeqCst) {
            return g;
        }
        {
            let s = g.as_ref().unwrap();
            if s.gen != gen {
                return g;
            }
            if s.current == me && matches!(
                    s.threads[me].st,
                    St::Parked | St::Joining | St::JoiningAll | St::Running
                )
            {
                break;
            }
        }
        let (g2, to) = CV
            .wait_timeout(g, Duration::from_secs(300))
            .unwrap_or_else(|e| e.into_inner());
        g = g2;
        if to.timed_out() && ACTIVE.load(Ordering::SeqCst) {
            stall();
        }
    }
    g.as_mut().unwrap().threads[me].st = St::Running;
    g
}

/// A seam call: record it, hand the token to whoever the scheduler picks, wait to get it back.
pub fn yield_point(label: &'static str) {
    if !ACTIVE.load(Ordering::Relaxed) {
        return;
    }
    let mut g = STATE.lock().unwrap_or_else(|e| e.into_inner());
    let Some(s) = g.as_mut() else { return };
    let Some(me) = my_tid(s) else { return };
    let gen = s.gen;
    s.events += 1;
    mix(&mut s.trace_digest, (me as u64) << 32 | crate::rng::hash_str(label) & 0xffff_ffff);
    s.threads[me].st = St::Parked;
    g = schedule(g, me);
    let _g = wait_for_token(g, me, gen);
}

/// Record an event in the trace without yielding (for things like "cancel called").
pub fn note(label: &str) {
    if !ACTIVE.load(Ordering::Relaxed) {
        return;
    }
    let mut g = STATE.lock().unwrap_or_else(|e| e.into_inner());
    let Some(s) = g.as_mut() else { return };
    let me = my_tid(s).unwrap_or(99);
    mix(&mut s.trace_digest, (me as u64) << 32 | crate::rng::hash_str(label) & 0xffff_ffff);
}

/// Hook registered with the SDK (sdk/src/verif.rs).
fn hook(kind: c2pa::verif::PointKind, label: &'static str) {
    use c2pa::verif::PointKind as K;
    if !ACTIVE.load(Ordering::Relaxed) {
        return;
    }
    match kind {
        K::Point => yield_point(label),
        K::AboutToSpawn => {
            let mut g = STATE.lock().unwrap_or_else(|e| e.into_inner());
            let Some(s) = g.as_mut() else { return };
            let Some(me) = my_tid(s) else { return };
            let id = s.threads.len();
            s.threads.push(Th {
                st: St::Announced,
                parent: Some(me),
            });
            s.announced.push(id);
        }
        K::ThreadEnter => {
            let mut g = STATE.lock().unwrap_or_else(|e| e.into_inner());
            let Some(s) = g.as_mut() else { return };
            if s.announced.is_empty() {
                return; // spawned by a thread outside the turnstile
            }
            let id = s.announced.remove(0);
            let gen = s.gen;
            ME.with(|m| m.set(Some((gen, id))));
            s.threads[id].st = St::Parked;
            CV.notify_all();
            let _g = wait_for_token(g, id, gen);
        }
        K::ThreadExit => {
            let mut g = STATE.lock().unwrap_or_else(|e| e.into_inner());
            let Some(s) = g.as_mut() else { return };
            let Some(me) = my_tid(s) else { return };
            s.threads[me].st = St::Done;
            s.events += 1;
            mix(&mut s.trace_digest, (me as u64) << 32 | 0xE);
            ME.with(|m| m.set(None));
            let _g = schedule(g, me);
        }
        K::JoinChildren => {
            let mut g = STATE.lock().unwrap_or_else(|e| e.into_inner());
            let Some(s) = g.as_mut() else { return };
            let Some(me) = my_tid(s) else { return };
            let gen = s.gen;
            s.threads[me].st = St::Joining;
            s.events += 1;
            mix(&mut s.trace_digest, (me as u64) << 32 | 0xF);
            g = schedule(g, me);
            let _g = wait_for_token(g, me, gen);
        }
    }
}

/// Spawn a harness thread that takes part in the turnstile.
pub fn spawn<F, T>(f: F) -> std::thread::JoinHandle<T>
where
    F: FnOnce() -> T + Send + 'static,
    T: Send + 'static,
{
    let (id, gen) = {
        let mut g = STATE.lock().unwrap_or_else(|e| e.into_inner());
        let s = g.as_mut().expect("turnstile not started");
        let me = my_tid(s);
        let id = s.threads.len();
        s.threads.push(Th {
            st: St::Parked,
            parent: me,
        });
        (id, s.gen)
    };
    std::thread::Builder::new()
        .name(format!("sim-{id}"))
        .spawn(move || {
            ME.with(|m| m.set(Some((gen, id))));
            {
                let g = STATE.lock().unwrap_or_else(|e| e.into_inner());
                let _g = wait_for_token(g, id, gen);
            }
            let r = std::panic::catch_unwind(std::panic::AssertUnwindSafe(f));
            {
                let mut g = STATE.lock().unwrap_or_else(|e| e.into_inner());
                if let Some(s) = g.as_mut() {
                    if s.gen == gen && ACTIVE.load(Ordering::SeqCst) {
                        s.threads[id].st = St::Done;
                        s.events += 1;
                        mix(&mut s.trace_digest, (id as u64) << 32 | 0xE);
                        let _g = schedule(g, id);
                    }
                }
            }
            ME.with(|m| m.set(None));
            match r {
                Ok(v) => v,
                Err(e) => std::panic::resume_unwind(e),
            }
        })
        .expect("spawn")
}

/// Thread 0 waits until every other turnstile thread is done (handing the token around).
pub fn join_all() {
    if !ACTIVE.load(Ordering::Relaxed) {
        return;
    }
    let mut g = STATE.lock().unwrap_or_else(|e| e.into_inner());
    let Some(s) = g.as_mut() else { return };
    let Some(me) = my_tid(s) else { return };
    let gen = s.gen;
    s.threads[me].st = St::JoiningAll;
    g = schedule(g, me);
    let _g = wait_for_token(g, me, gen);
}
