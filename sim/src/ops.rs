//! SDK operations executed over SimStreams, sync or async, with a recording / cancelling
//! progress callback.  Shared by C35, C23, C40, C24, C38, C03.

use std::{cell::RefCell, sync::Arc};

use c2pa::{Builder, Context, ProgressPhase, Reader};
use serde_json::{json, Value};

use crate::{
    assets::Fmt,
    exec::{block_on, PendSource, SimAsyncSigner},
    report::{err_kind, Report},
    sdk,
    stream::{set_phase, SimStream, WorldRef},
};

// ------------------------------------------------------------------ progress callback state

#[derive(Default)]
pub struct CbState {
    pub world: Option<WorldRef>,
    /// every invocation: (phase, step, total)
    pub log: Vec<(String, u32, u32)>,
    /// return false at this (1-based) invocation
    pub cancel_at: Option<usize>,
    /// call ctx.cancel() (instead of returning false) at this invocation
    pub flag_at: Option<(usize, Arc<Context>)>,
    /// callbacks are neither logged nor acted on (fault-free preparation / follow-up parts)
    pub muted: bool,
    /// run this at the given invocation, after any flag_at cancel, with callbacks muted: a second
    /// operation interleaved with the one that is paused in its progress callback
    pub nested_at: Option<(usize, Arc<dyn Fn() + Send + Sync>)>,
}

thread_local! {
    pub static CB: RefCell<CbState> = RefCell::new(CbState::default());
    /// global event sequence numbers of this thread's callback invocations (cross-thread cancel)
    pub static CB_SEQS: RefCell<Vec<u64>> = const { RefCell::new(Vec::new()) };
}

pub fn cb_reset(world: Option<WorldRef>, cancel_at: Option<usize>) {
    CB.with(|c| {
        let mut c = c.borrow_mut();
        c.world = world;
        c.log.clear();
        c.cancel_at = cancel_at;
        c.flag_at = None;
        c.nested_at = None;
        c.muted = false;
    });
    CB_SEQS.with(|s| s.borrow_mut().clear());
}

pub fn cb_take_log() -> Vec<(String, u32, u32)> {
    CB.with(|c| std::mem::take(&mut c.borrow_mut().log))
}

pub fn progress_cb(phase: ProgressPhase, step: u32, total: u32) -> bool {
    let name = format!("{phase:?}");
    if CB.with(|c| c.borrow().muted) {
        return true;
    }
    crate::turnstile::yield_point("progress");
    let seq = crate::props::c23::EVENT_SEQ.fetch_add(1, std::sync::atomic::Ordering::SeqCst);
    CB_SEQS.with(|s| {
        let mut s = s.borrow_mut();
        if s.len() < 100_000 {
            s.push(seq)
        }
    });
    let (cont, flag, nested) = CB.with(|c| {
        let mut c = c.borrow_mut();
        if let Some(w) = &c.world {
            set_phase(w, &name);
        }
        c.log.push((name.clone(), step, total));
        let n = c.log.len();
        let flag = match &c.flag_at {
            Some((at, ctx)) if *at == n => Some(ctx.clone()),
            _ => None,
        };
        let nested = match &c.nested_at {
            Some((at, f)) if *at == n => Some(f.clone()),
            _ => None,
        };
        (c.cancel_at != Some(n), flag, nested)
    });
    if let Some(ctx) = flag {
        ctx.cancel();
    }
    if let Some(f) = nested {
        mute(true);
        f();
        mute(false);
    }
    cont
}

pub fn mute(on: bool) {
    CB.with(|c| c.borrow_mut().muted = on);
}

/// Context with base settings + overlay and the recording progress callback.
pub fn make_ctx(overlay: &Value) -> Arc<Context> {
    // the context carries the fixture signer too (used by the embeddable workflow)
    Arc::new(
        sdk::make_context(overlay)
            .with_signer(sdk::make_signer("ed25519"))
            .with_progress_callback(progress_cb),
    )
}

// ------------------------------------------------------------------ operations

#[derive(Clone, Copy, Debug, PartialEq, Eq, Hash, PartialOrd, Ord)]
pub enum Op {
    Sign,
    SignSidecar,
    Read,
    ReadSidecar,
    AddIngredient,
    ToArchive,
    WithArchive,
    JumbfLoad,
    JumbfSave,
    /// placeholder -> embed -> update_hash_from_stream(SimStream) -> sign_embeddable -> patch
    Embeddable,
}

pub const ALL_OPS: [Op; 10] = [
    Op::Sign,
    Op::SignSidecar,
    Op::Read,
    Op::ReadSidecar,
    Op::AddIngredient,
    Op::ToArchive,
    Op::WithArchive,
    Op::JumbfLoad,
    Op::JumbfSave,
    Op::Embeddable,
];

impl Op {
    pub fn name(self) -> &'static str {
        match self {
            Op::Sign => "sign",
            Op::SignSidecar => "sign_sidecar",
            Op::Read => "read",
            Op::ReadSidecar => "read_sidecar",
            Op::AddIngredient => "add_ingredient",
            Op::ToArchive => "to_archive",
            Op::WithArchive => "with_archive",
            Op::JumbfLoad => "jumbf_load",
            Op::JumbfSave => "jumbf_save",
            Op::Embeddable => "embeddable",
        }
    }
    pub fn has_async(self) -> bool {
        matches!(
            self,
            Op::Sign | Op::SignSidecar | Op::Read | Op::ReadSidecar | Op::AddIngredient
        )
    }
}

/// Everything an operation needs, prepared fault-free.
#[derive(Clone)]
pub struct Scenario {
    pub op: Op,
    pub fmt: Fmt,
    pub hint: String,
    pub alg: String,
    pub def: Value,
    /// unsigned asset
    pub asset: Vec<u8>,
    /// signed asset (embedded manifest)
    pub signed: Vec<u8>,
    /// manifest store bytes for sidecar reads
    pub sidecar: Vec<u8>,
    /// builder archive
    pub archive: Vec<u8>,
    /// stop after the operation proper (no fault-free follow-up sign/read-back)
    pub no_followup: bool,
}

#[derive(Clone, Debug, PartialEq)]
pub enum Outcome {
    Err(String),
    /// strict report (same bytes read twice)
    Report(Box<Report>),
    /// projected report of reading what a signing operation produced
    Signed(Value),
    Bytes(Vec<u8>),
    Unit,
}

impl Outcome {
    pub fn brief(&self) -> String {
        match self {
            Outcome::Err(e) => format!("Err({e})"),
            Outcome::Report(r) => format!("Ok({})", r.brief()),
            Outcome::Signed(v) => format!(
                "Ok(signed->{})",
                v.get("state").and_then(|s| s.as_str()).unwrap_or("?")
            ),
            Outcome::Bytes(b) => format!("Ok({} bytes)", b.len()),
            Outcome::Unit => "Ok(())".into(),
        }
    }
    pub fn is_err(&self) -> bool {
        matches!(self, Outcome::Err(_))
    }
    pub fn err_kind(&self) -> Option<&str> {
        match self {
            Outcome::Err(e) => Some(e),
            _ => None,
        }
    }
    /// state string if the outcome carries a validation state
    pub fn state(&self) -> Option<String> {
        match self {
            Outcome::Report(r) => Some(r.state.clone()),
            Outcome::Signed(v) => v.get("state").and_then(|s| s.as_str()).map(|s| s.to_string()),
            _ => None,
        }
    }
}

/// Prepare a scenario (fault-free, plain cursors).  `verify_ctx` has no callback.
pub fn prepare(
    op: Op,
    fmt: Fmt,
    alg: &str,
    asset: Vec<u8>,
    def: Value,
    ctx: &Arc<Context>,
) -> Result<Scenario, String> {
    let mut sc = Scenario {
        op,
        fmt,
        hint: fmt.mime().to_string(),
        alg: alg.to_string(),
        def,
        asset,
        signed: vec![],
        sidecar: vec![],
        archive: vec![],
        no_followup: false,
    };
    match op {
        Op::Read | Op::AddIngredient | Op::JumbfLoad | Op::ToArchive | Op::WithArchive => {
            sc.signed = sdk::sign_plain(ctx, &sc.def, alg, fmt.mime(), &sc.asset)?;
        }
        Op::ReadSidecar => {
            let signer = sdk::make_signer(alg);
            let mut b = Builder::from_shared_context(ctx)
                .with_definition(sc.def.clone())
                .map_err(|e| err_kind(&e))?;
            b.set_no_embed(true);
            let mut src = std::io::Cursor::new(sc.asset.clone());
            let mut dst = std::io::Cursor::new(Vec::new());
            sc.sidecar = b
                .sign(signer.as_ref(), fmt.mime(), &mut src, &mut dst)
                .map_err(|e| err_kind(&e))?;
            // with no_embed the destination is the (unchanged) asset
            sc.signed = dst.into_inner();
        }
        Op::JumbfSave => {
            // a store to embed: take it from a signed copy
            let signed = sdk::sign_plain(ctx, &sc.def, alg, fmt.mime(), &sc.asset)?;
            sc.sidecar = c2pa::jumbf_io::load_jumbf_from_memory(fmt.mime(), &signed)
                .map_err(|e| err_kind(&e))?;
        }
        _ => {}
    }
    if matches!(op, Op::ToArchive | Op::WithArchive) {
        let mut b = Builder::from_shared_context(ctx)
            .with_definition(sc.def.clone())
            .map_err(|e| err_kind(&e))?;
        let mut ing = std::io::Cursor::new(sc.signed.clone());
        b.add_ingredient_from_stream(
            json!({"title": "ing", "relationship": "componentOf"}).to_string(),
            fmt.mime(),
            &mut ing,
        )
        .map_err(|e| err_kind(&e))?;
        let mut ar = std::io::Cursor::new(Vec::new());
        b.to_archive(&mut ar).map_err(|e| err_kind(&e))?;
        sc.archive = ar.into_inner();
    }
    Ok(sc)
}

fn read_back(verify_ctx: &Arc<Context>, fmt: &str, bytes: &[u8]) -> Outcome {
    match sdk::read_plain(verify_ctx, fmt, bytes) {
        Ok(r) => Outcome::Signed(r.projected()),
        Err(e) => Outcome::Signed(json!({"state": format!("ReadBackErr({e})")})),
    }
}

pub struct ExecEnv<'a> {
    /// context the operation runs with (has the progress callback)
    pub ctx: &'a Arc<Context>,
    /// callback-free context with the same settings, for read-backs
    pub verify_ctx: &'a Arc<Context>,
    pub world: &'a WorldRef,
    /// Some => run the async flavour with this pending source
    pub pend: Option<PendSource>,
}

/// Execute the scenario's operation with all its streams on `world`.
pub fn exec(sc: &Scenario, env: &ExecEnv) -> Outcome {
    let w = env.world;
    let mime = sc.fmt.mime();
    let is_async = env.pend.is_some() && sc.op.has_async();
    match sc.op {
        Op::Sign | Op::SignSidecar => {
            let mut b = match Builder::from_shared_context(env.ctx).with_definition(sc.def.clone()) {
                Ok(b) => b,
                Err(e) => return Outcome::Err(err_kind(&e)),
            };
            if sc.op == Op::SignSidecar {
                b.set_no_embed(true);
            }
            let mut src = SimStream::new(w, 0, sc.asset.clone());
            let mut dst = SimStream::new(w, 1, Vec::new());
            let r = if is_async {
                let s = SimAsyncSigner {
                    inner: sdk::make_signer(&sc.alg),
                    pend: env.pend.clone().unwrap(),
                };
                block_on(b.sign_async(&s, &sc.hint, &mut src, &mut dst))
            } else {
                let s = sdk::make_signer(&sc.alg);
                b.sign(s.as_ref(), &sc.hint, &mut src, &mut dst)
            };
            match r {
                Err(e) => Outcome::Err(err_kind(&e)),
                Ok(c2pa_data) => {
                    let out = dst.into_data();
                    if sc.no_followup {
                        return Outcome::Bytes(out);
                    }
                    if sc.op == Op::SignSidecar {
                        let rd = Reader::from_shared_context(env.verify_ctx)
                            .with_manifest_data_and_stream(
                                &c2pa_data,
                                mime,
                                std::io::Cursor::new(out),
                            );
                        match rd {
                            Ok(r) => Outcome::Signed(Report::from_reader(&r).projected()),
                            Err(e) => Outcome::Signed(json!({"state": format!("ReadBackErr({})", err_kind(&e))})),
                        }
                    } else {
                        read_back(env.verify_ctx, mime, &out)
                    }
                }
            }
        }
        Op::Read => {
            let src = SimStream::new(w, 0, sc.signed.clone());
            let rd = Reader::from_shared_context(env.ctx);
            let r = if is_async {
                block_on(rd.with_stream_async(&sc.hint, src))
            } else {
                rd.with_stream(&sc.hint, src)
            };
            match r {
                Ok(r) => Outcome::Report(Box::new(Report::from_reader(&r))),
                Err(e) => Outcome::Err(err_kind(&e)),
            }
        }
        Op::ReadSidecar => {
            let src = SimStream::new(w, 0, sc.signed.clone());
            let rd = Reader::from_shared_context(env.ctx);
            let r = if is_async {
                block_on(rd.with_manifest_data_and_stream_async(&sc.sidecar, &sc.hint, src))
            } else {
                rd.with_manifest_data_and_stream(&sc.sidecar, &sc.hint, src)
            };
            match r {
                Ok(r) => Outcome::Report(Box::new(Report::from_reader(&r))),
                Err(e) => Outcome::Err(err_kind(&e)),
            }
        }
        Op::AddIngredient => {
            let mut b = match Builder::from_shared_context(env.ctx).with_definition(sc.def.clone()) {
                Ok(b) => b,
                Err(e) => return Outcome::Err(err_kind(&e)),
            };
            let mut src = SimStream::new(w, 0, sc.signed.clone());
            let ij = json!({"title": "ing", "relationship": "componentOf"}).to_string();
            let r = if is_async {
                block_on(b.add_ingredient_from_stream_async(ij, &sc.hint, &mut src)).map(|_| ())
            } else {
                b.add_ingredient_from_stream(ij, &sc.hint, &mut src).map(|_| ())
            };
            if let Err(e) = r {
                return Outcome::Err(err_kind(&e));
            }
            if sc.no_followup {
                return Outcome::Unit;
            }
            // sign the parent fault-free and report what was recorded
            let mut psrc = std::io::Cursor::new(sc.asset.clone());
            let mut pdst = std::io::Cursor::new(Vec::new());
            let s = sdk::make_signer(&sc.alg);
            // detach the callback for the fault-free part
            mute(true);
            let r = b.sign(s.as_ref(), mime, &mut psrc, &mut pdst);
            mute(false);
            match r {
                Ok(_) => read_back(env.verify_ctx, mime, &pdst.into_inner()),
                Err(e) => Outcome::Err(format!("parent-sign:{}", err_kind(&e))),
            }
        }
        Op::ToArchive => {
            let mut b = match Builder::from_shared_context(env.ctx).with_definition(sc.def.clone()) {
                Ok(b) => b,
                Err(e) => return Outcome::Err(err_kind(&e)),
            };
            let mut ing = std::io::Cursor::new(sc.signed.clone());
            mute(true);
            let pr = b
                .add_ingredient_from_stream(
                    json!({"title": "ing", "relationship": "componentOf"}).to_string(),
                    mime,
                    &mut ing,
                )
                .map(|_| ());
            mute(false);
            if let Err(e) = pr {
                return Outcome::Err(format!("prep:{}", err_kind(&e)));
            }
            // only the archive write is on the simulated stream: restart op counting here
            let mut dst = SimStream::new(w, 0, Vec::new());
            match b.to_archive(&mut dst) {
                Err(e) => Outcome::Err(err_kind(&e)),
                Ok(()) if sc.no_followup => Outcome::Bytes(dst.into_data()),
                Ok(()) => restore_and_sign(sc, env, dst.into_data()),
            }
        }
        Op::WithArchive => {
            let src = SimStream::new(w, 0, sc.archive.clone());
            match Builder::from_shared_context(env.ctx).with_archive(src) {
                Err(e) => Outcome::Err(err_kind(&e)),
                Ok(_) if sc.no_followup => Outcome::Unit,
                Ok(mut b) => sign_builder(sc, env, &mut b),
            }
        }
        Op::JumbfLoad => {
            let mut src = SimStream::new(w, 0, sc.signed.clone());
            match c2pa::jumbf_io::load_jumbf_from_stream(&sc.hint, &mut src) {
                Ok(b) => Outcome::Bytes(b),
                Err(e) => Outcome::Err(err_kind(&e)),
            }
        }
        Op::Embeddable => {
            // the simulator plays the caller of the placeholder workflow; only the hash pass
            // (update_hash_from_stream) is on the simulated stream
            let ectx = env.ctx.clone();
            let off = match c2pa::verif::object_locations_from_stream(mime, &mut std::io::Cursor::new(sc.asset.clone())) {
                Ok(l) => match l.iter().find(|x| x.2 == 0) {
                    Some(x) => x.0,
                    None => return Outcome::Err("prep:no-position".into()),
                },
                Err(e) => return Outcome::Err(format!("prep:{}", err_kind(&e))),
            };
            let mut b = match Builder::from_shared_context(&ectx).with_definition(sc.def.clone()) {
                Ok(b) => b,
                Err(e) => return Outcome::Err(err_kind(&e)),
            };
            let ph = match b.placeholder(mime) {
                Ok(p) if !p.is_empty() => p,
                Ok(_) => return Outcome::Err("prep:empty-placeholder".into()),
                Err(e) => return Outcome::Err(err_kind(&e)),
            };
            let mut image = sc.asset[..off].to_vec();
            image.extend(&ph);
            image.extend(&sc.asset[off..]);
            if let Err(e) = b.set_data_hash_exclusions(vec![c2pa::HashRange::new(off as u64, ph.len() as u64)]) {
                return Outcome::Err(err_kind(&e));
            }
            let mut s = SimStream::new(w, 0, image.clone());
            if let Err(e) = b.update_hash_from_stream(mime, &mut s) {
                return Outcome::Err(err_kind(&e));
            }
            let signed = match b.sign_embeddable(mime) {
                Ok(x) => x,
                Err(e) => return Outcome::Err(err_kind(&e)),
            };
            if signed.len() != ph.len() {
                return Outcome::Err(format!("size-mismatch:{}-vs-{}", signed.len(), ph.len()));
            }
            image[off..off + ph.len()].copy_from_slice(&signed);
            if sc.no_followup {
                return Outcome::Bytes(image);
            }
            read_back(env.verify_ctx, mime, &image)
        }
        Op::JumbfSave => {
            let mut src = SimStream::new(w, 0, sc.asset.clone());
            let mut dst = SimStream::new(w, 1, Vec::new());
            match c2pa::jumbf_io::save_jumbf_to_stream(&sc.hint, &mut src, &mut dst, &sc.sidecar) {
                Ok(()) => Outcome::Bytes(dst.into_data()),
                Err(e) => Outcome::Err(err_kind(&e)),
            }
        }
    }
}

fn sign_builder(sc: &Scenario, env: &ExecEnv, b: &mut Builder) -> Outcome {
    let mut psrc = std::io::Cursor::new(sc.asset.clone());
    let mut pdst = std::io::Cursor::new(Vec::new());
    let s = sdk::make_signer(&sc.alg);
    mute(true);
    let r = b.sign(s.as_ref(), sc.fmt.mime(), &mut psrc, &mut pdst);
    mute(false);
    match r {
        Ok(_) => read_back(env.verify_ctx, sc.fmt.mime(), &pdst.into_inner()),
        Err(e) => Outcome::Err(format!("restored-sign:{}", err_kind(&e))),
    }
}

fn restore_and_sign(sc: &Scenario, env: &ExecEnv, archive: Vec<u8>) -> Outcome {
    match Builder::from_shared_context(env.verify_ctx).with_archive(std::io::Cursor::new(archive)) {
        Err(e) => Outcome::Signed(json!({"state": format!("RestoreErr({})", err_kind(&e))})),
        Ok(mut b) => sign_builder(sc, env, &mut b),
    }
}
