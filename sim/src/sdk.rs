//! Thin helpers over the real SDK: signers, contexts, sign / read with SimStreams.

use std::sync::Arc;

use c2pa::{Builder, Context, Reader, SigningAlg};
use serde_json::{json, Value};

use crate::{
    assets::Fmt,
    report::{err_kind, Report},
    stream::{SimStream, WorldRef},
};

macro_rules! cert {
    ($n:literal) => {
        (
            include_bytes!(concat!("../../fixtures/certs/", $n, ".pub")) as &[u8],
            include_bytes!(concat!("../../fixtures/certs/", $n, ".pem")) as &[u8],
        )
    };
}

pub const ALGS: [&str; 7] = ["ed25519", "es256", "es384", "es512", "ps256", "ps384", "ps512"];

pub fn cert_and_key(alg: &str) -> (&'static [u8], &'static [u8], SigningAlg) {
    match alg {
        "es256" => {
            let c = cert!("es256");
            (c.0, c.1, SigningAlg::Es256)
        }
        "es384" => {
            let c = cert!("es384");
            (c.0, c.1, SigningAlg::Es384)
        }
        "es512" => {
            let c = cert!("es512");
            (c.0, c.1, SigningAlg::Es512)
        }
        "ps256" => {
            let c = cert!("ps256");
            (c.0, c.1, SigningAlg::Ps256)
        }
        "ps384" => {
            let c = cert!("ps384");
            (c.0, c.1, SigningAlg::Ps384)
        }
        "ps512" => {
            let c = cert!("ps512");
            (c.0, c.1, SigningAlg::Ps512)
        }
        _ => {
            let c = cert!("ed25519");
            (c.0, c.1, SigningAlg::Ed25519)
        }
    }
}

pub fn make_signer(alg: &str) -> c2pa::BoxedSigner {
    // "es256-der" etc.: the same credentials behind a signer that hands ECDSA signatures back in
    // ASN.1 DER, as raw OpenSSL-style signers do (the SDK has to bring them to r||s form)
    if let Some(base) = alg.strip_suffix("-der") {
        return Box::new(DerSigner { inner: make_signer(base) });
    }
    let (c, k, a) = cert_and_key(alg);
    c2pa::create_signer::from_keys(c, k, a, None).expect("fixture signer")
}

pub struct DerSigner {
    pub inner: c2pa::BoxedSigner,
}

/// r||s -> SEQUENCE { INTEGER r, INTEGER s }; anything that is not an even-length r||s is passed on
pub fn p1363_to_der(sig: &[u8]) -> Vec<u8> {
    if ![64usize, 96, 132].contains(&sig.len()) {
        return sig.to_vec();
    }
    let int = |b: &[u8]| -> Vec<u8> {
        let mut v: Vec<u8> = b.iter().copied().skip_while(|x| *x == 0).collect();
        if v.is_empty() {
            v.push(0);
        }
        if v[0] & 0x80 != 0 {
            v.insert(0, 0);
        }
        let mut o = vec![0x02];
        o.extend(der_len(v.len()));
        o.extend(v);
        o
    };
    let (r, s) = sig.split_at(sig.len() / 2);
    let body = [int(r), int(s)].concat();
    let mut o = vec![0x30];
    o.extend(der_len(body.len()));
    o.extend(body);
    o
}

fn der_len(n: usize) -> Vec<u8> {
    if n < 128 {
        vec![n as u8]
    } else if n < 256 {
        vec![0x81, n as u8]
    } else {
        vec![0x82, (n >> 8) as u8, n as u8]
    }
}

impl c2pa::Signer for DerSigner {
    fn sign(&self, data: &[u8]) -> c2pa::Result<Vec<u8>> {
        self.inner.sign(data).map(|s| p1363_to_der(&s))
    }
    fn alg(&self) -> SigningAlg {
        self.inner.alg()
    }
    fn certs(&self) -> c2pa::Result<Vec<Vec<u8>>> {
        self.inner.certs()
    }
    fn reserve_size(&self) -> usize {
        self.inner.reserve_size()
    }
}

pub const TRUST_ANCHORS: &str =
    include_str!("../../fixtures/certs/trust/test_cert_root_bundle.pem");
pub const TRUST_CONFIG: &str = include_str!("../../fixtures/certs/trust/store.cfg");

/// Settings every scenario starts from: fixture trust anchors, thumbnails off, no network.
pub fn base_settings() -> Value {
    json!({
        "trust": { "trust_anchors": TRUST_ANCHORS, "trust_config": TRUST_CONFIG },
        "builder": { "thumbnail": { "enabled": false } },
        "verify": { "remote_manifest_fetch": false, "ocsp_fetch": false }
    })
}

pub fn merge(a: &mut Value, b: &Value) {
    match (a, b) {
        (Value::Object(a), Value::Object(b)) => {
            for (k, v) in b {
                merge(a.entry(k.clone()).or_insert(Value::Null), v);
            }
        }
        (a, b) => *a = b.clone(),
    }
}

pub fn settings_with(overlay: &Value) -> Value {
    let mut s = base_settings();
    merge(&mut s, overlay);
    s
}

pub fn make_context(overlay: &Value) -> Context {
    Context::new()
        .with_settings(settings_with(overlay))
        .expect("settings")
}

pub fn simple_definition(title: &str) -> Value {
    json!({
        "title": title,
        "claim_generator_info": [{ "name": "c2pasim", "version": "0.1" }],
        "assertions": [
            { "label": "c2pa.actions", "data": { "actions": [ { "action": "c2pa.created",
                "digitalSourceType": "http://cv.iptc.org/newscodes/digitalsourcetype/digitalCapture" } ] } },
            { "label": "org.sim.note", "data": { "note": title } }
        ]
    })
}

#[derive(Clone, Copy, Debug, PartialEq, Eq, Hash)]
pub enum Binding {
    /// whatever the SDK picks by default (data hash; BMFF hash for mp4)
    Default,
    /// box hash (builder.prefer_box_hash) for formats that support it
    Box,
    /// BMFF hash with Merkle leaves of 1 KiB over the mdat payload; the model asset's mdat is
    /// sized so that the leaf-covered part is a whole number of leaves
    MerkleAligned,
    /// the same with a last leaf of 1..1023 bytes
    Merkle,
    /// default binding, signed and validated without trust anchors: the signing credential is
    /// logged as untrusted (a tolerated failure) and the state is Valid instead of Trusted
    NoTrust,
    /// an update manifest (BuilderIntent::Update) over a parent signed with the default binding
    Update,
}

pub fn binding_overlay(b: Binding) -> Value {
    match b {
        Binding::Default => json!({}),
        Binding::Box => json!({ "core": { "prefer_compress_manifests": true } }),
        Binding::Merkle | Binding::MerkleAligned => json!({ "core": { "merkle_tree_chunk_size_in_kb": 1 } }),
        Binding::Update => json!({}),
        Binding::NoTrust => json!({ "trust": { "trust_anchors": null, "trust_config": null, "user_anchors": null } }),
    }
}

/// Sign `asset` (plain Cursor streams, no faults) and return the signed bytes.
pub fn sign_plain(
    ctx: &Arc<Context>,
    def: &Value,
    alg: &str,
    fmt: &str,
    asset: &[u8],
) -> Result<Vec<u8>, String> {
    let signer = make_signer(alg);
    let mut b = Builder::from_shared_context(ctx)
        .with_definition(def.clone())
        .map_err(|e| err_kind(&e))?;
    let mut src = std::io::Cursor::new(asset.to_vec());
    let mut dst = std::io::Cursor::new(Vec::new());
    b.sign(signer.as_ref(), fmt, &mut src, &mut dst)
        .map_err(|e| err_kind(&e))?;
    Ok(dst.into_inner())
}

/// Sign through SimStreams of `world` (ids 0 = source, 1 = dest).
pub fn sign_sim(
    ctx: &Arc<Context>,
    def: &Value,
    alg: &str,
    fmt: &str,
    asset: &[u8],
    world: &WorldRef,
) -> Result<Vec<u8>, String> {
    let signer = make_signer(alg);
    let mut b = Builder::from_shared_context(ctx)
        .with_definition(def.clone())
        .map_err(|e| err_kind(&e))?;
    let mut src = SimStream::new(world, 0, asset.to_vec());
    let mut dst = SimStream::new(world, 1, Vec::new());
    b.sign(signer.as_ref(), fmt, &mut src, &mut dst)
        .map_err(|e| err_kind(&e))?;
    Ok(dst.into_data())
}

pub fn read_plain(ctx: &Arc<Context>, fmt: &str, bytes: &[u8]) -> Result<Report, String> {
    let src = std::io::Cursor::new(bytes.to_vec());
    match Reader::from_shared_context(ctx).with_stream(fmt, src) {
        Ok(r) => Ok(Report::from_reader(&r)),
        Err(e) => Err(err_kind(&e)),
    }
}

/// The asynchronous form of `read_plain`, driven by the simulator's executor.
pub fn read_plain_async(ctx: &Arc<Context>, fmt: &str, bytes: &[u8]) -> Result<Report, String> {
    let src = std::io::Cursor::new(bytes.to_vec());
    match crate::exec::block_on(Reader::from_shared_context(ctx).with_stream_async(fmt, src)) {
        Ok(r) => Ok(Report::from_reader(&r)),
        Err(e) => Err(err_kind(&e)),
    }
}

pub fn read_sim(
    ctx: &Arc<Context>,
    fmt: &str,
    bytes: &[u8],
    world: &WorldRef,
) -> Result<Report, String> {
    let src = SimStream::new(world, 0, bytes.to_vec());
    match Reader::from_shared_context(ctx).with_stream(fmt, src) {
        Ok(r) => Ok(Report::from_reader(&r)),
        Err(e) => Err(err_kind(&e)),
    }
}

pub fn fmt_supports_box(f: Fmt) -> bool {
    crate::assets::BOX_HASH.contains(&f)
}

// ------------------------------------------------------------------ panic capture

pub static LAST_PANIC: std::sync::Mutex<String> = std::sync::Mutex::new(String::new());

/// Install a panic hook that records "file:line: message" (instead of printing it).
pub fn install_panic_hook() {
    std::panic::set_hook(Box::new(|info| {
        let loc = info
            .location()
            .map(|l| {
                let f = l.file();
                // keep the path from the crate directory on, so that it is stable across machines
                let short = f.rsplit_once("/src/").map(|(a, b)| {
                    format!("{}/src/{}", a.rsplit('/').next().unwrap_or(""), b)
                });
                format!("{}:{}", short.unwrap_or_else(|| f.to_string()), l.line())
            })
            .unwrap_or_else(|| "?".into());
        let msg = info
            .payload()
            .downcast_ref::<String>()
            .cloned()
            .or_else(|| info.payload().downcast_ref::<&str>().map(|s| s.to_string()))
            .unwrap_or_default();
        // innermost frames of the SDK (or of this crate when the harness itself panics)
        let bt = std::backtrace::Backtrace::force_capture().to_string();
        let site = crate::stream::site_from_backtrace(&bt);
        let loc = if site != "unknown" && !loc.starts_with("src/") { format!("{site}({loc})") } else { loc };
        if let Ok(mut g) = LAST_PANIC.lock() {
            *g = format!("{loc}|{msg}");
        }
    }));
}

/// Run `f`; a panic becomes Err("file:line|message").
pub fn guarded<T>(f: impl FnOnce() -> T) -> Result<T, String> {
    match std::panic::catch_unwind(std::panic::AssertUnwindSafe(f)) {
        Ok(v) => Ok(v),
        Err(_) => Err(LAST_PANIC.lock().map(|g| g.clone()).unwrap_or_default()),
    }
}
