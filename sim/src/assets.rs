//! Tiny synthetic assets, structurally valid at marker / chunk / box level (the SDK handlers
//! never decode pixels or samples).  Each generator is seeded so that structure varies per run.

use crate::rng::Rng;

#[derive(Clone, Copy, Debug, PartialEq, Eq, Hash, PartialOrd, Ord)]
pub enum Fmt {
    Jpeg,
    Png,
    Gif,
    Wav,
    Webp,
    Tiff,
    Svg,
    Mp3,
    Flac,
    Jxl,
    Mp4,
}

pub const ALL: [Fmt; 11] = [
    Fmt::Jpeg,
    Fmt::Png,
    Fmt::Gif,
    Fmt::Wav,
    Fmt::Webp,
    Fmt::Tiff,
    Fmt::Svg,
    Fmt::Mp3,
    Fmt::Flac,
    Fmt::Jxl,
    Fmt::Mp4,
];

/// formats whose handlers support box hashing
pub const BOX_HASH: [Fmt; 4] = [Fmt::Jpeg, Fmt::Png, Fmt::Gif, Fmt::Jxl];

impl Fmt {
    pub fn mime(self) -> &'static str {
        match self {
            Fmt::Jpeg => "image/jpeg",
            Fmt::Png => "image/png",
            Fmt::Gif => "image/gif",
            Fmt::Wav => "audio/wav",
            Fmt::Webp => "image/webp",
            Fmt::Tiff => "image/tiff",
            Fmt::Svg => "image/svg+xml",
            Fmt::Mp3 => "audio/mpeg",
            Fmt::Flac => "audio/flac",
            Fmt::Jxl => "image/jxl",
            Fmt::Mp4 => "video/mp4",
        }
    }
    pub fn ext(self) -> &'static str {
        match self {
            Fmt::Jpeg => "jpg",
            Fmt::Png => "png",
            Fmt::Gif => "gif",
            Fmt::Wav => "wav",
            Fmt::Webp => "webp",
            Fmt::Tiff => "tif",
            Fmt::Svg => "svg",
            Fmt::Mp3 => "mp3",
            Fmt::Flac => "flac",
            Fmt::Jxl => "jxl",
            Fmt::Mp4 => "mp4",
        }
    }
    pub fn name(self) -> &'static str {
        self.ext()
    }
    pub fn from_name(s: &str) -> Option<Fmt> {
        ALL.iter().copied().find(|f| f.ext() == s || f.mime() == s)
    }
    pub fn is_bmff(self) -> bool {
        self == Fmt::Mp4
    }
}

pub fn crc32(data: &[u8]) -> u32 {
    let mut crc = 0xFFFF_FFFFu32;
    for &b in data {
        crc ^= b as u32;
        for _ in 0..8 {
            crc = if crc & 1 != 0 {
                (crc >> 1) ^ 0xEDB8_8320
            } else {
                crc >> 1
            };
        }
    }
    !crc
}

fn be16(v: usize) -> [u8; 2] {
    (v as u16).to_be_bytes()
}
fn be32(v: usize) -> [u8; 4] {
    (v as u32).to_be_bytes()
}
fn le32(v: usize) -> [u8; 4] {
    (v as u32).to_le_bytes()
}

/// bytes that contain no 0xFF (safe inside JPEG entropy data)
fn noff(r: &mut Rng, n: usize) -> Vec<u8> {
    r.bytes(n).into_iter().map(|b| if b == 0xFF { 0x7F } else { b }).collect()
}

pub fn generate(f: Fmt, r: &mut Rng) -> Vec<u8> {
    match f {
        Fmt::Jpeg => jpeg(r),
        Fmt::Png => png(r),
        Fmt::Gif => gif(r),
        Fmt::Wav => riff(r, b"WAVE"),
        Fmt::Webp => riff(r, b"WEBP"),
        Fmt::Tiff => tiff(r),
        Fmt::Svg => svg(r),
        Fmt::Mp3 => mp3(r),
        Fmt::Flac => flac(r),
        Fmt::Jxl => jxl(r),
        Fmt::Mp4 => mp4(r, 0).0,
    }
}

fn seg(marker: u8, payload: &[u8]) -> Vec<u8> {
    let mut v = vec![0xFF, marker];
    v.extend_from_slice(&be16(payload.len() + 2));
    v.extend_from_slice(payload);
    v
}

/// `jpeg` with a foreign APP11 segment of 17..=27 content bytes inserted after APP0
pub fn jpeg_short_app11(r: &mut Rng) -> Vec<u8> {
    let v = jpeg(r);
    insert_short_app11(&v, r)
}

/// insert a foreign APP11 segment of 17..=27 content bytes after the APP0 segment of a JPEG
pub fn insert_short_app11(v: &[u8], r: &mut Rng) -> Vec<u8> {
    let n = r.usize(17, 27);
    let mut p = b"foreign-app11".to_vec();
    p.extend(noff(r, n - p.len()));
    let at = 20.min(v.len()); // SOI + APP0 of the model
    let mut o = v[..at].to_vec();
    o.extend(seg(0xEB, &p));
    o.extend_from_slice(&v[at..]);
    o
}

/// a small XMP packet (no provenance reference in it)
fn xmp_packet(r: &mut Rng, format: &str) -> Vec<u8> {
    let title = r.ident(1, 12);
    format!("<?xpacket begin=\"\" id=\"W5M0MpCehiHzreSzNTczkc9d\"?><x:xmpmeta xmlns:x=\"adobe:ns:meta/\"><rdf:RDF xmlns:rdf=\"http://www.w3.org/1999/02/22-rdf-syntax-ns#\"><rdf:Description rdf:about=\"\" xmlns:dc=\"http://purl.org/dc/elements/1.1/\" dc:format=\"{format}\" dc:title=\"{title}\"/></rdf:RDF></x:xmpmeta><?xpacket end=\"w\"?>").into_bytes()
}

pub fn jpeg(r: &mut Rng) -> Vec<u8> {
    let mut v = vec![0xFF, 0xD8];
    // JFIF APP0
    v.extend(seg(0xE0, b"JFIF\0\x01\x01\0\0\x01\0\x01\0\0"));
    // optional XMP packet (APP1)
    if r.chance(1, 3) {
        let mut p = b"http://ns.adobe.com/xap/1.0/\0".to_vec();
        p.extend(xmp_packet(r, "image/jpeg"));
        v.extend(seg(0xE1, &p));
    }
    // optional extra APPn / COM
    for _ in 0..r.below(3) {
        // (APP11 is not reserved for C2PA: a foreign APP11 segment of any length is legal)
        let m = *r.pick(&[0xE2u8, 0xEC, 0xED, 0xFE, 0xEB, 0xEB]);
        let mut n = r.usize(1, 36);
        if m == 0xEB && (12..=22).contains(&n) {
            // a foreign APP11 segment of 17-27 bytes makes every JPEG write path of the SDK answer
            // InvalidAsset (a listed finding, see jpeg_short_app11); kept out of the common model
            n += 11;
        }
        let mut p = format!("seg{:02x}", m).into_bytes();
        p.extend(noff(r, n));
        v.extend(seg(m, &p));
    }
    // DQT
    let mut dqt = vec![0u8];
    dqt.extend((0..64).map(|i| 1 + (i as u8 % 31)));
    v.extend(seg(0xDB, &dqt));
    // SOF0 1x1 gray
    v.extend(seg(0xC0, &[8, 0, 1, 0, 1, 1, 1, 0x11, 0]));
    // DHT (DC table 0, one code)
    let mut dht = vec![0u8];
    dht.extend([1u8, 0, 0, 0, 0, 0, 0, 0, 0, 0, 0, 0, 0, 0, 0, 0]);
    dht.push(0);
    v.extend(seg(0xC4, &dht));
    // optional DRI
    let restarts = r.chance(1, 3);
    if restarts {
        v.extend(seg(0xDD, &[0, 1]));
    }
    // SOS
    v.extend(seg(0xDA, &[1, 1, 0, 0, 63, 0]));
    let n = r.usize(4, 40);
    v.extend(noff(r, n));
    if restarts {
        for i in 0..r.usize(1, 3) {
            v.extend([0xFF, 0xD0 + (i as u8 & 7)]);
            let n = r.usize(2, 12);
            v.extend(noff(r, n));
        }
    }
    if r.chance(1, 4) {
        v.extend([0xFF, 0x00]); // stuffed byte
        v.extend(noff(r, 3));
    }
    v.extend([0xFF, 0xD9]);
    v
}

fn png_chunk(name: &[u8; 4], data: &[u8]) -> Vec<u8> {
    let mut v = Vec::new();
    v.extend(be32(data.len()));
    let mut body = name.to_vec();
    body.extend_from_slice(data);
    let c = crc32(&body);
    v.extend(body);
    v.extend(c.to_be_bytes());
    v
}

pub fn png(r: &mut Rng) -> Vec<u8> {
    let mut v = vec![0x89, b'P', b'N', b'G', 0x0D, 0x0A, 0x1A, 0x0A];
    v.extend(png_chunk(b"IHDR", &[0, 0, 0, 1, 0, 0, 0, 1, 8, 0, 0, 0, 0]));
    // optional XMP packet (iTXt, uncompressed)
    if r.chance(1, 3) {
        let mut d = b"XML:com.adobe.xmp\0\0\0\0\0".to_vec();
        d.extend(xmp_packet(r, "image/png"));
        v.extend(png_chunk(b"iTXt", &d));
    }
    for _ in 0..r.below(3) {
        let n = r.usize(0, 20);
        let mut d = b"Comment\0".to_vec();
        d.extend(r.bytes(n).iter().map(|b| b'a' + b % 26));
        v.extend(png_chunk(b"tEXt", &d));
    }
    for _ in 0..r.usize(1, 2) {
        let n = r.usize(1, 40);
        v.extend(png_chunk(b"IDAT", &r.bytes(n)));
    }
    if r.chance(1, 3) {
        v.extend(png_chunk(b"tIME", &[7, 230, 1, 1, 0, 0, 0]));
    }
    v.extend(png_chunk(b"IEND", &[]));
    v
}

pub fn gif(r: &mut Rng) -> Vec<u8> {
    let mut v = b"GIF89a".to_vec();
    let gct = r.chance(1, 2);
    v.extend([1, 0, 1, 0, if gct { 0x80 } else { 0 }, 0, 0]);
    if gct {
        v.extend([0, 0, 0, 255, 255, 255]);
    }
    for _ in 0..r.below(3) {
        if r.chance(1, 2) {
            // comment extension
            v.extend([0x21, 0xFE]);
            let n = r.usize(1, 30);
            v.push(n as u8);
            v.extend(r.bytes(n).iter().map(|b| b'a' + b % 26));
            v.push(0);
        } else {
            // graphic control extension
            v.extend([0x21, 0xF9, 4, 0, 0, 0, 0, 0]);
        }
    }
    // image descriptor
    v.extend([0x2C, 0, 0, 0, 0, 1, 0, 1, 0, 0]);
    v.push(2); // LZW min code size
    for _ in 0..r.usize(1, 3) {
        let n = r.usize(1, 30);
        v.push(n as u8);
        v.extend(r.bytes(n));
    }
    v.push(0);
    v.push(0x3B);
    v
}

fn riff_chunk(id: &[u8; 4], data: &[u8]) -> Vec<u8> {
    let mut v = id.to_vec();
    v.extend(le32(data.len()));
    v.extend_from_slice(data);
    if data.len() % 2 == 1 {
        v.push(0);
    }
    v
}

pub fn riff(r: &mut Rng, form: &[u8; 4]) -> Vec<u8> {
    let mut body = form.to_vec();
    if form == b"WAVE" {
        body.extend(riff_chunk(
            b"fmt ",
            &[1, 0, 1, 0, 0x44, 0xAC, 0, 0, 0x88, 0x58, 1, 0, 2, 0, 16, 0],
        ));
        if r.chance(1, 2) {
            let n = r.usize(1, 21);
            body.extend(riff_chunk(b"LIST", &{
                let mut d = b"INFO".to_vec();
                d.extend(riff_chunk(b"ICMT", &r.bytes(n)));
                d
            }));
        }
        let n = r.usize(2, 60);
        body.extend(riff_chunk(b"data", &r.bytes(n)));
    } else {
        // WebP, extended: VP8X + VP8L
        let x = r.chance(1, 2);
        if x {
            body.extend(riff_chunk(b"VP8X", &[0, 0, 0, 0, 0, 0, 0, 0, 0, 0]));
        }
        let n = r.usize(5, 40);
        let mut d = vec![0x2F];
        d.extend(r.bytes(n));
        body.extend(riff_chunk(b"VP8L", &d));
    }
    let mut v = b"RIFF".to_vec();
    v.extend(le32(body.len()));
    v.extend(body);
    v
}

pub fn tiff(r: &mut Rng) -> Vec<u8> {
    // either byte order, one IFD, one strip placed before or after the IFD
    let be = r.chance(1, 3);
    let strip_len = r.usize(4, 40);
    let strip = r.bytes(strip_len);
    let strip_first = r.chance(1, 2);
    let n_entries = 8usize;
    let ifd_len = 2 + n_entries * 12 + 4;
    let (ifd_off, strip_off) = if strip_first {
        let so = 8;
        let mut io = so + strip_len;
        if io % 2 == 1 {
            io += 1;
        }
        (io, so)
    } else {
        (8, 8 + ifd_len)
    };
    let mut v = if be { vec![b'M', b'M', 0, 42] } else { vec![b'I', b'I', 42, 0] };
    v.extend(if be { (ifd_off as u32).to_be_bytes() } else { le32(ifd_off) });
    let ent = |tag: u16, typ: u16, cnt: u32, val: u32| {
        let mut e = Vec::new();
        if be {
            e.extend(tag.to_be_bytes());
            e.extend(typ.to_be_bytes());
            e.extend(cnt.to_be_bytes());
            if typ == 3 {
                // a SHORT sits in the first two bytes of the value field
                e.extend((val as u16).to_be_bytes());
                e.extend([0u8, 0]);
            } else {
                e.extend(val.to_be_bytes());
            }
        } else {
            e.extend(tag.to_le_bytes());
            e.extend(typ.to_le_bytes());
            e.extend(cnt.to_le_bytes());
            e.extend(val.to_le_bytes());
        }
        e
    };
    let mut ifd = Vec::new();
    ifd.extend(if be { (n_entries as u16).to_be_bytes() } else { (n_entries as u16).to_le_bytes() });
    ifd.extend(ent(256, 3, 1, 1)); // width
    ifd.extend(ent(257, 3, 1, 1)); // length
    ifd.extend(ent(258, 3, 1, 8)); // bits
    ifd.extend(ent(259, 3, 1, 1)); // compression none
    ifd.extend(ent(262, 3, 1, 1)); // photometric
    ifd.extend(ent(273, 4, 1, strip_off as u32)); // strip offsets
    ifd.extend(ent(278, 3, 1, 1)); // rows per strip
    ifd.extend(ent(279, 4, 1, strip_len as u32)); // strip byte counts
    ifd.extend(0u32.to_le_bytes());
    if strip_first {
        v.extend(&strip);
        while v.len() < ifd_off {
            v.push(0);
        }
        v.extend(ifd);
    } else {
        v.extend(ifd);
        v.extend(&strip);
    }
    v
}

pub fn svg(r: &mut Rng) -> Vec<u8> {
    let mut s = String::new();
    if r.chance(1, 2) {
        s.push_str("<?xml version=\"1.0\" encoding=\"UTF-8\"?>\n");
    }
    s.push_str("<svg xmlns=\"http://www.w3.org/2000/svg\" width=\"4\" height=\"4\">");
    for _ in 0..r.usize(1, 3) {
        let id = r.ident(1, 8);
        if r.chance(1, 2) {
            s.push_str(&format!("<rect id=\"{id}\" width=\"1\" height=\"1\"/>"));
        } else {
            s.push_str(&format!("<g id=\"{id}\"><circle r=\"1\"/></g>"));
        }
    }
    s.push_str("</svg>");
    if r.chance(1, 2) {
        s.push('\n');
    }
    s.into_bytes()
}

fn mpeg_frames(r: &mut Rng) -> Vec<u8> {
    let mut v = Vec::new();
    for _ in 0..r.usize(1, 2) {
        // MPEG1 layer3 128kbps 44.1kHz: 417 bytes per frame
        v.extend([0xFF, 0xFB, 0x90, 0x00]);
        v.extend(noff(r, 413));
    }
    v
}

pub fn mp3(r: &mut Rng) -> Vec<u8> {
    let mut v = Vec::new();
    if r.chance(1, 2) {
        // ID3v2.3 tag with one TIT2 frame
        let text = r.ident(1, 12);
        let mut frame = b"TIT2".to_vec();
        frame.extend(be32(text.len() + 1));
        frame.extend([0, 0, 0]);
        frame.extend(text.as_bytes());
        let mut tag = b"ID3\x03\0\0".to_vec();
        let n = frame.len();
        tag.extend([
            ((n >> 21) & 0x7f) as u8,
            ((n >> 14) & 0x7f) as u8,
            ((n >> 7) & 0x7f) as u8,
            (n & 0x7f) as u8,
        ]);
        tag.extend(frame);
        v.extend(tag);
    }
    v.extend(mpeg_frames(r));
    v
}

pub fn flac(r: &mut Rng) -> Vec<u8> {
    let mut v = b"fLaC".to_vec();
    let extra = r.chance(1, 2);
    // STREAMINFO (type 0, 34 bytes)
    v.push(if extra { 0x00 } else { 0x80 });
    v.extend([0, 0, 34]);
    let mut si = vec![0x10, 0x00, 0x10, 0x00, 0, 0, 0, 0, 0, 0, 0x0A, 0xC4, 0x42, 0xF0, 0, 0, 0, 0];
    si.extend([0u8; 16]);
    v.extend(si);
    if extra {
        // PADDING block (type 1), last
        let n = r.usize(0, 16);
        v.push(0x81);
        v.extend([0, 0, n as u8]);
        v.extend(vec![0u8; n]);
    }
    // one "frame"
    v.extend([0xFF, 0xF8, 0x69, 0x08, 0x00]);
    let n = r.usize(4, 40);
    v.extend(noff(r, n));
    v
}

pub fn bmff_box(typ: &[u8; 4], payload: &[u8]) -> Vec<u8> {
    let mut v = Vec::new();
    v.extend(be32(payload.len() + 8));
    v.extend(typ);
    v.extend_from_slice(payload);
    v
}

pub fn jxl(r: &mut Rng) -> Vec<u8> {
    let mut v = vec![0, 0, 0, 0x0C, b'J', b'X', b'L', b' ', 0x0D, 0x0A, 0x87, 0x0A];
    v.extend(bmff_box(b"ftyp", b"jxl \0\0\0\0jxl "));
    if r.chance(1, 2) {
        let n = r.usize(4, 20);
        let mut p = vec![0u8, 0, 0, 0];
        p.extend(r.bytes(n));
        v.extend(bmff_box(b"Exif", &p));
    }
    // now and then a box written with the 16-byte header form (size field 1, 64-bit size)
    if r.chance(1, 3) {
        let n = r.usize(4, 24);
        let p = r.bytes(n);
        v.extend(1u32.to_be_bytes());
        v.extend(b"xml ");
        v.extend(((16 + p.len()) as u64).to_be_bytes());
        v.extend(p);
    }
    let n = r.usize(4, 40);
    let mut cs = vec![0xFF, 0x0A];
    cs.extend(r.bytes(n));
    if r.chance(1, 4) {
        // the last box may run to the end of the file (size field 0)
        v.extend(0u32.to_be_bytes());
        v.extend(b"jxlc");
        v.extend(cs);
    } else {
        v.extend(bmff_box(b"jxlc", &cs));
    }
    v
}

fn fullbox(typ: &[u8; 4], version: u8, flags: u32, payload: &[u8]) -> Vec<u8> {
    let mut p = vec![version];
    p.extend(&flags.to_be_bytes()[1..]);
    p.extend_from_slice(payload);
    bmff_box(typ, &p)
}

/// Minimal MP4: ftyp, [free(free_len)], moov(mvhd, trak(tkhd, mdia(mdhd, hdlr, minf(stbl(stsd,
/// stts, stsc, stsz, stco))))), mdat.  Returns (bytes, offsets of each mdat box, payload lens).
/// `free_len` > 0 inserts a `free` box of that total size after ftyp (placeholder workflows).
pub fn mp4(r: &mut Rng, free_len: usize) -> (Vec<u8>, Vec<(usize, usize, usize)>) {
    mp4_sized(r, free_len, 0, None)
}

/// Like `mp4`, with `extra_payload` more mdat payload bytes and optionally a forced header form.
pub fn mp4_sized(r: &mut Rng, free_len: usize, extra_payload: usize, force_large: Option<bool>) -> (Vec<u8>, Vec<(usize, usize, usize)>) {
    let mut v = bmff_box(b"ftyp", b"isom\0\0\x02\0isomiso2mp41");
    if free_len >= 8 {
        v.extend(bmff_box(b"free", &vec![0u8; free_len - 8]));
    }
    let n_samples = r.usize(1, 3);
    let mut sizes: Vec<usize> = (0..n_samples).map(|_| r.usize(4, 40)).collect();
    sizes[0] += extra_payload;
    let payload_len: usize = sizes.iter().sum();
    let mdat_first = r.chance(1, 3);
    let large_draw = r.chance(1, 4);
    let large = force_large.unwrap_or(large_draw);

    let build_moov = |chunk_off: u32| -> Vec<u8> {
        let mut mvhd = vec![0u8; 96];
        mvhd[8..12].copy_from_slice(&1000u32.to_be_bytes()); // timescale
        mvhd[16..20].copy_from_slice(&0x00010000u32.to_be_bytes()); // rate
        mvhd[92..96].copy_from_slice(&2u32.to_be_bytes()); // next track id
        let mvhd = fullbox(b"mvhd", 0, 0, &mvhd);
        let mut tkhd = vec![0u8; 80];
        tkhd[8..12].copy_from_slice(&1u32.to_be_bytes());
        let tkhd = fullbox(b"tkhd", 0, 7, &tkhd);
        let mut mdhd = vec![0u8; 20];
        mdhd[8..12].copy_from_slice(&1000u32.to_be_bytes());
        let mdhd = fullbox(b"mdhd", 0, 0, &mdhd);
        let mut hdlr = vec![0u8; 4];
        hdlr.extend(b"vide");
        hdlr.extend([0u8; 12]);
        hdlr.extend(b"sim\0");
        let hdlr = fullbox(b"hdlr", 0, 0, &hdlr);
        let stsd = fullbox(b"stsd", 0, 0, &0u32.to_be_bytes());
        let stts = fullbox(b"stts", 0, 0, &0u32.to_be_bytes());
        let mut stsc = 1u32.to_be_bytes().to_vec();
        stsc.extend(1u32.to_be_bytes());
        stsc.extend((n_samples as u32).to_be_bytes());
        stsc.extend(1u32.to_be_bytes());
        let stsc = fullbox(b"stsc", 0, 0, &stsc);
        let mut stsz = 0u32.to_be_bytes().to_vec();
        stsz.extend((n_samples as u32).to_be_bytes());
        for s in &sizes {
            stsz.extend((*s as u32).to_be_bytes());
        }
        let stsz = fullbox(b"stsz", 0, 0, &stsz);
        let mut stco = 1u32.to_be_bytes().to_vec();
        stco.extend(chunk_off.to_be_bytes());
        let stco = fullbox(b"stco", 0, 0, &stco);
        let stbl = bmff_box(b"stbl", &[stsd, stts, stsc, stsz, stco].concat());
        let minf = bmff_box(b"minf", &stbl);
        let mdia = bmff_box(b"mdia", &[mdhd, hdlr, minf].concat());
        let trak = bmff_box(b"trak", &[tkhd, mdia].concat());
        bmff_box(b"moov", &[mvhd, trak].concat())
    };

    let payload = r.bytes(payload_len);
    let hdr = if large { 16 } else { 8 };
    let mdat = {
        let mut m = Vec::new();
        if large {
            m.extend(1u32.to_be_bytes());
            m.extend(b"mdat");
            m.extend(((payload_len + 16) as u64).to_be_bytes());
        } else {
            m.extend(be32(payload_len + 8));
            m.extend(b"mdat");
        }
        m.extend(&payload);
        m
    };
    let moov_len = build_moov(0).len();
    let mut mdats = Vec::new();
    if mdat_first {
        let off = v.len();
        mdats.push((off, hdr, payload_len));
        let moov = build_moov((off + hdr) as u32);
        v.extend(mdat);
        v.extend(moov);
    } else {
        let off = v.len() + moov_len;
        mdats.push((off, hdr, payload_len));
        let moov = build_moov((off + hdr) as u32);
        v.extend(moov);
        v.extend(mdat);
    }
    (v, mdats)
}

/// BMFF with every kind of absolute file offset the SDK has to fix up when it inserts or removes
/// its uuid box: stco or co64 chunk offsets, saio (v0/v1), a top-level meta with iloc (versions
/// 0-2, offset sizes 4/8, base offset sizes 0/4/8, base-plus-extent or extent-only addressing),
/// movie fragments with tfhd base_data_offset, and mfra/tfra (v0/v1) entries.  All addressed
/// data lives in one trailing mdat (fragments address their own moof).
pub fn mp4_rich(r: &mut Rng) -> Vec<u8> {
    #[derive(Clone, Copy)]
    enum T {
        Data(usize),
        Moof(usize),
    }
    struct Piece {
        bytes: Vec<u8>,
        ptrs: Vec<(usize, usize, T)>, // (position in bytes, width, target)
    }
    // data blobs
    let n_blobs = r.usize(3, 8);
    let blobs: Vec<Vec<u8>> = (0..n_blobs).map(|_| { let n = r.usize(12, 40); r.bytes(n) }).collect();
    let mut blob_off = Vec::new();
    let mut acc = 0usize;
    for b in &blobs {
        blob_off.push(acc);
        acc += b.len();
    }
    let mut next_blob = 0usize;
    let mut take = |r: &mut Rng| -> usize {
        let b = next_blob % n_blobs;
        next_blob += 1 + r.below(2) as usize;
        b
    };
    /// find the position of `needle` marker and blank it
    fn mark(v: &mut Vec<u8>, width: usize) -> usize {
        let p = v.len();
        v.extend(std::iter::repeat(0u8).take(width));
        p
    }
    let mut pieces: Vec<Piece> = Vec::new();
    let brand: &[u8] = if r.chance(1, 3) { b"heic\0\0\0\0heicmif1" } else { b"isom\0\0\x02\0isomiso2mp41" };
    pieces.push(Piece { bytes: bmff_box(b"ftyp", brand), ptrs: vec![] });

    // ---- moov with stco or co64 (+ optional saio)
    {
        let n_chunks = r.usize(1, 3);
        let wide = r.chance(1, 2);
        let mut ptrs: Vec<(usize, usize, T)> = Vec::new();
        let mut mvhd = vec![0u8; 96];
        mvhd[8..12].copy_from_slice(&1000u32.to_be_bytes());
        mvhd[92..96].copy_from_slice(&2u32.to_be_bytes());
        let mvhd = fullbox(b"mvhd", 0, 0, &mvhd);
        let mut tkhd = vec![0u8; 80];
        tkhd[8..12].copy_from_slice(&1u32.to_be_bytes());
        let tkhd = fullbox(b"tkhd", 0, 7, &tkhd);
        let mut mdhd = vec![0u8; 20];
        mdhd[8..12].copy_from_slice(&1000u32.to_be_bytes());
        let mdhd = fullbox(b"mdhd", 0, 0, &mdhd);
        let mut hdlr = vec![0u8; 4];
        hdlr.extend(b"vide");
        hdlr.extend([0u8; 12]);
        hdlr.extend(b"sim\0");
        let hdlr = fullbox(b"hdlr", 0, 0, &hdlr);
        let stsd = fullbox(b"stsd", 0, 0, &0u32.to_be_bytes());
        let stts = fullbox(b"stts", 0, 0, &0u32.to_be_bytes());
        let mut stsc = 1u32.to_be_bytes().to_vec();
        stsc.extend(1u32.to_be_bytes());
        stsc.extend(1u32.to_be_bytes());
        stsc.extend(1u32.to_be_bytes());
        let stsc = fullbox(b"stsc", 0, 0, &stsc);
        let mut stsz = 8u32.to_be_bytes().to_vec();
        stsz.extend((n_chunks as u32).to_be_bytes());
        let stsz = fullbox(b"stsz", 0, 0, &stsz);
        // offsets inside the moov box are tracked relative to the moov start
        let mut stbl_children: Vec<(Vec<u8>, Vec<(usize, usize, T)>)> = vec![(stsd, vec![]), (stts, vec![]), (stsc, vec![]), (stsz, vec![])];
        {
            let w = if wide { 8 } else { 4 };
            let mut p = (n_chunks as u32).to_be_bytes().to_vec();
            let mut pp = Vec::new();
            for _ in 0..n_chunks {
                let at = mark(&mut p, w);
                pp.push((at + 12, w, T::Data(take(r)))); // 8 header + 4 version/flags
            }
            stbl_children.push((fullbox(if wide { b"co64" } else { b"stco" }, 0, 0, &p), pp));
        }
        if r.chance(1, 2) {
            let v1 = r.chance(1, 2);
            let with_type = r.chance(1, 2);
            let w = if v1 { 8 } else { 4 };
            let mut p = Vec::new();
            if with_type {
                p.extend(b"cenc");
                p.extend(0u32.to_be_bytes());
            }
            let n = r.usize(1, 2);
            p.extend((n as u32).to_be_bytes());
            let mut pp = Vec::new();
            for _ in 0..n {
                let at = mark(&mut p, w);
                pp.push((at + 12, w, T::Data(take(r))));
            }
            stbl_children.push((fullbox(b"saio", if v1 { 1 } else { 0 }, if with_type { 1 } else { 0 }, &p), pp));
        }
        // assemble stbl and lift the pointer positions through the nesting
        let mut stbl_payload = Vec::new();
        let mut stbl_ptrs = Vec::new();
        for (b, pp) in stbl_children {
            let base = stbl_payload.len();
            for (at, w, t) in pp {
                stbl_ptrs.push((base + at, w, t));
            }
            stbl_payload.extend(b);
        }
        let stbl = bmff_box(b"stbl", &stbl_payload);
        let minf = bmff_box(b"minf", &stbl);
        let mdia_payload = [mdhd.clone(), hdlr.clone(), minf].concat();
        let mdia = bmff_box(b"mdia", &mdia_payload);
        let trak_payload = [tkhd.clone(), mdia].concat();
        let trak = bmff_box(b"trak", &trak_payload);
        let moov_payload = [mvhd.clone(), trak].concat();
        let moov = bmff_box(b"moov", &moov_payload);
        // position of the stbl payload inside moov
        let off = 8 + mvhd.len() + 8 + tkhd.len() + 8 + mdhd.len() + hdlr.len() + 8 + 8;
        for (at, w, t) in stbl_ptrs {
            ptrs.push((off + at, w, t));
        }
        pieces.push(Piece { bytes: moov, ptrs });
    }

    // ---- top-level meta with iloc
    if r.chance(1, 2) {
        let version = r.below(3) as u8;
        let offset_size = *r.pick(&[4usize, 8]);
        let base_offset_size = *r.pick(&[0usize, 4, 8]);
        let index_size = if version >= 1 && r.chance(1, 3) { *r.pick(&[4usize, 8]) } else { 0usize };
        let n_items = r.usize(1, 3);
        let mut p = vec![((offset_size as u8) << 4) | 4, ((base_offset_size as u8) << 4) | index_size as u8];
        if version < 2 {
            p.extend((n_items as u16).to_be_bytes());
        } else {
            p.extend((n_items as u32).to_be_bytes());
        }
        let mut pp = Vec::new();
        for i in 0..n_items {
            if version < 2 {
                p.extend((i as u16 + 1).to_be_bytes());
            } else {
                p.extend((i as u32 + 1).to_be_bytes());
            }
            if version >= 1 {
                p.extend(0u16.to_be_bytes()); // construction method 0: file offsets
            }
            p.extend(0u16.to_be_bytes()); // data reference index
            // base carries the address (extent offset 0), or base is 0 / absent and the extent does
            let base_addresses = base_offset_size > 0 && r.chance(1, 2);
            let blob = take(r);
            if base_offset_size > 0 {
                let at = mark(&mut p, base_offset_size);
                if base_addresses {
                    pp.push((at + 12, base_offset_size, T::Data(blob)));
                }
            }
            p.extend(1u16.to_be_bytes()); // extent count
            p.extend(std::iter::repeat(0u8).take(index_size.saturating_sub(1)));
            if index_size > 0 {
                p.push(1); // extent index
            }
            let at = mark(&mut p, offset_size);
            if !base_addresses {
                pp.push((at + 12, offset_size, T::Data(blob)));
            }
            p.extend(8u32.to_be_bytes()); // extent length
        }
        let iloc = fullbox(b"iloc", version, 0, &p);
        let mut hdlr = vec![0u8; 4];
        hdlr.extend(b"pict");
        hdlr.extend([0u8; 12]);
        hdlr.push(0);
        let hdlr = fullbox(b"hdlr", 0, 0, &hdlr);
        let meta = fullbox(b"meta", 0, 0, &[hdlr.clone(), iloc].concat());
        let off = 12 + hdlr.len();
        pieces.push(Piece { bytes: meta, ptrs: pp.into_iter().map(|(at, w, t)| (off + at, w, t)).collect() });
    }

    // ---- movie fragments
    let n_frag = if r.chance(1, 2) { r.usize(1, 2) } else { 0 };
    let mut moof_piece_idx = Vec::new();
    for f in 0..n_frag {
        let mfhd = fullbox(b"mfhd", 0, 0, &(f as u32 + 1).to_be_bytes());
        let with_base = r.chance(2, 3);
        let mut p = 1u32.to_be_bytes().to_vec(); // track id 1
        let mut pp = Vec::new();
        if with_base {
            let at = mark(&mut p, 8);
            pp.push((at + 12, 8, T::Moof(f)));
        }
        // other tf_flags at random: default-base-is-moof and duration-is-empty carry no field,
        // the four optional-field flags add four bytes each after the base offset
        let mut flags: u32 = if with_base { 1 } else { 0 };
        for (bit, field) in [(0x02_0000u32, false), (0x01_0000, false), (0x02, true), (0x08, true), (0x10, true), (0x20, true)] {
            if r.chance(1, 3) {
                flags |= bit;
                if field {
                    p.extend(1u32.to_be_bytes());
                }
            }
        }
        let tfhd = fullbox(b"tfhd", 0, flags, &p);
        let trun = fullbox(b"trun", 0, 0, &0u32.to_be_bytes());
        let traf = bmff_box(b"traf", &[tfhd, trun].concat());
        let moof = bmff_box(b"moof", &[mfhd.clone(), traf].concat());
        let off = 8 + mfhd.len() + 8;
        moof_piece_idx.push(pieces.len());
        pieces.push(Piece { bytes: moof, ptrs: pp.into_iter().map(|(at, w, t)| (off + at, w, t)).collect() });
        let n = r.usize(4, 24);
        pieces.push(Piece { bytes: bmff_box(b"mdat", &r.bytes(n)), ptrs: vec![] });
    }

    // ---- the mdat holding the blobs
    let large = r.chance(1, 4);
    let data_piece = pieces.len();
    let payload: Vec<u8> = blobs.concat();
    let mdat = if large {
        let mut m = 1u32.to_be_bytes().to_vec();
        m.extend(b"mdat");
        m.extend(((payload.len() + 16) as u64).to_be_bytes());
        m.extend(&payload);
        m
    } else {
        bmff_box(b"mdat", &payload)
    };
    pieces.push(Piece { bytes: mdat, ptrs: vec![] });

    // ---- mfra / tfra (one entry per fragment; the SDK maps a track to one moof, so one
    // fragment per track is what tfra can faithfully describe)
    if n_frag >= 1 && r.chance(2, 3) {
        let v1 = r.chance(1, 2);
        let mut p = 1u32.to_be_bytes().to_vec(); // track id
        let sizes = r.below(64) as u32; // length_size_of traf/trun/sample num
        p.extend(sizes.to_be_bytes());
        p.extend((n_frag as u32).to_be_bytes()); // one entry per fragment
        let mut pp = Vec::new();
        for f in 0..n_frag {
            if v1 {
                p.extend((f as u64).to_be_bytes());
                let at = mark(&mut p, 8);
                pp.push((at + 12, 8, T::Moof(f)));
            } else {
                p.extend((f as u32).to_be_bytes());
                let at = mark(&mut p, 4);
                pp.push((at + 12, 4, T::Moof(f)));
            }
            for sh in [4u32, 2, 0] {
                let n = ((sizes >> sh) & 3) as usize + 1;
                p.extend(std::iter::repeat(1u8).take(n));
            }
        }
        let tfra = fullbox(b"tfra", if v1 { 1 } else { 0 }, 0, &p);
        let mut mfro = Vec::new();
        mfro.extend(((8 + tfra.len() + 16) as u32).to_be_bytes());
        let mfro = fullbox(b"mfro", 0, 0, &mfro);
        let mfra = bmff_box(b"mfra", &[tfra, mfro].concat());
        pieces.push(Piece { bytes: mfra, ptrs: pp.into_iter().map(|(at, w, t)| (8 + at, w, t)).collect() });
    }

    // ---- lay out and patch
    let mut starts = Vec::new();
    let mut pos = 0usize;
    for p in &pieces {
        starts.push(pos);
        pos += p.bytes.len();
    }
    let data_start = starts[data_piece] + if large { 16 } else { 8 };
    let mut out = Vec::with_capacity(pos);
    for (i, p) in pieces.iter().enumerate() {
        let mut b = p.bytes.clone();
        for (at, w, t) in &p.ptrs {
            let target = match t {
                T::Data(k) => data_start + blob_off[*k],
                T::Moof(f) => starts[moof_piece_idx[*f]],
            } as u64;
            if *w == 4 {
                b[*at..*at + 4].copy_from_slice(&(target as u32).to_be_bytes());
            } else {
                b[*at..*at + 8].copy_from_slice(&target.to_be_bytes());
            }
        }
        let _ = i;
        out.extend(b);
    }
    out
}

/// MP4 (8-byte mdat header) whose mdat box is `mdat_size` bytes long.
pub fn mp4_with_mdat_size(r: &mut Rng, mdat_size: usize) -> Vec<u8> {
    let mut probe = r.clone();
    let (_, m) = mp4_sized(&mut probe, 0, 0, Some(false));
    let base = m[0].1 + m[0].2;
    let extra = mdat_size.saturating_sub(base);
    mp4_sized(r, 0, extra, Some(false)).0
}

/// All mime types / extensions the reader claims to support (for hint workloads) are obtained
/// from the SDK at run time; this is the fixed list of *wrong-but-known* hints used in samples.
pub fn fmt_list() -> Vec<&'static str> {
    ALL.iter().map(|f| f.mime()).collect()
}
