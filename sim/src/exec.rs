//! Seeded single-thread executor: leaf futures supplied by the simulator return `Pending` a
//! PRNG-drawn number of times; `block_on` polls until ready; `race` interleaves several
//! top-level futures in PRNG order.

use std::{
    future::Future,
    pin::Pin,
    sync::{
        atomic::{AtomicU64, Ordering},
        Arc,
    },
    task::{Context, Poll, RawWaker, RawWakerVTable, Waker},
};

use async_trait::async_trait;
use c2pa::{AsyncSigner, Result, Signer, SigningAlg};

fn noop_raw() -> RawWaker {
    fn no(_: *const ()) {}
    fn clone(_: *const ()) -> RawWaker {
        noop_raw()
    }
    static VT: RawWakerVTable = RawWakerVTable::new(clone, no, no, no);
    RawWaker::new(std::ptr::null(), &VT)
}

pub fn noop_waker() -> Waker {
    unsafe { Waker::from_raw(noop_raw()) }
}

pub static POLLS: AtomicU64 = AtomicU64::new(0);
pub static PENDINGS: AtomicU64 = AtomicU64::new(0);

pub fn block_on<F: Future>(fut: F) -> F::Output {
    let mut fut = Box::pin(fut);
    let w = noop_waker();
    let mut cx = Context::from_waker(&w);
    let mut spins = 0u64;
    loop {
        POLLS.fetch_add(1, Ordering::Relaxed);
        match fut.as_mut().poll(&mut cx) {
            Poll::Ready(v) => return v,
            Poll::Pending => {
                PENDINGS.fetch_add(1, Ordering::Relaxed);
                spins += 1;
                if spins > 10_000_000 {
                    panic!("executor: future never completes");
                }
                crate::turnstile::yield_point("await");
            }
        }
    }
}

/// Leaf future: Pending `n` times, then Ready.
pub struct PendN(pub u32);

impl Future for PendN {
    type Output = ();
    fn poll(mut self: Pin<&mut Self>, cx: &mut Context<'_>) -> Poll<()> {
        if self.0 == 0 {
            Poll::Ready(())
        } else {
            self.0 -= 1;
            cx.waker().wake_by_ref();
            Poll::Pending
        }
    }
}

/// Source of pending counts shared by the leaf futures of one run.
#[derive(Clone)]
pub struct PendSource(pub Arc<std::sync::Mutex<crate::rng::Rng>>, pub u32);

impl PendSource {
    pub fn new(rng: crate::rng::Rng, max: u32) -> Self {
        PendSource(Arc::new(std::sync::Mutex::new(rng)), max)
    }
    pub fn draw(&self) -> u32 {
        if self.1 == 0 {
            return 0;
        }
        let mut g = self.0.lock().unwrap_or_else(|e| e.into_inner());
        g.below(self.1 as u64 + 1) as u32
    }
}

/// Async signer wrapping the sync fixture signer (same key), with seeded Pendings.
pub struct SimAsyncSigner {
    pub inner: c2pa::BoxedSigner,
    pub pend: PendSource,
}

#[async_trait]
impl AsyncSigner for SimAsyncSigner {
    async fn sign(&self, data: Vec<u8>) -> Result<Vec<u8>> {
        PendN(self.pend.draw()).await;
        let r = self.inner.sign(&data);
        PendN(self.pend.draw()).await;
        r
    }
    fn alg(&self) -> SigningAlg {
        self.inner.alg()
    }
    fn certs(&self) -> Result<Vec<Vec<u8>>> {
        self.inner.certs()
    }
    fn reserve_size(&self) -> usize {
        self.inner.reserve_size()
    }
    async fn send_timestamp_request(&self, _message: &[u8]) -> Option<Result<Vec<u8>>> {
        None
    }
}

/// Poll several futures in PRNG order until all are done (optionally dropping one early).
pub fn race<T>(
    mut futs: Vec<Option<Pin<Box<dyn Future<Output = T>>>>>,
    rng: &mut crate::rng::Rng,
    drop_one_at: Option<(usize, u32)>,
) -> Vec<Option<T>> {
    let w = noop_waker();
    let mut cx = Context::from_waker(&w);
    let n = futs.len();
    let mut out: Vec<Option<T>> = (0..n).map(|_| None).collect();
    let mut polls = vec![0u32; n];
    let mut guard = 0u64;
    loop {
        let live: Vec<usize> = (0..n).filter(|i| futs[*i].is_some()).collect();
        if live.is_empty() {
            break;
        }
        let i = live[rng.below(live.len() as u64) as usize];
        if let Some((di, at)) = drop_one_at {
            if di == i && polls[i] >= at {
                futs[i] = None; // dropped at its current await point
                continue;
            }
        }
        polls[i] += 1;
        let done = match futs[i].as_mut() {
            Some(f) => match f.as_mut().poll(&mut cx) {
                Poll::Ready(v) => {
                    out[i] = Some(v);
                    true
                }
                Poll::Pending => false,
            },
            None => false,
        };
        if done {
            futs[i] = None;
        }
        guard += 1;
        if guard > 50_000_000 {
            panic!("executor: race never completes");
        }
    }
    out
}
