//! pkisim: simulated clock + TSA / OCSP peers that emit real tokens made with the openssl CLI.

use std::{
    path::{Path, PathBuf},
    process::Command,
    sync::Mutex,
};

use c2pa::{Signer, SigningAlg};
use sha2::{Digest, Sha256};

pub fn pool() -> PathBuf {
    crate::harness::verif_dir().join("fixtures/pki")
}

pub fn openssl() -> &'static str {
    if Path::new("/usr/bin/openssl").exists() {
        "/usr/bin/openssl"
    } else {
        "openssl"
    }
}

pub fn read(name: &str) -> Vec<u8> {
    std::fs::read(pool().join(name)).unwrap_or_default()
}

/// validity windows of the EE certificates in the pool (unix seconds)
pub fn window(ee: &str) -> (i64, i64) {
    match ee {
        "ee_past" => (1_577_836_800, 1_609_459_200), // 2020-01-01 .. 2021-01-01
        "ee_fut" => (2_208_988_800, 2_240_611_200),  // 2040-01-01 .. 2041-01-01
        _ => (1_704_067_200, 2_082_758_400),         // 2024-01-01 .. 2036-01-01
    }
}

#[derive(Clone, Copy, Debug, PartialEq)]
pub enum Tsa {
    None,
    Honest,
    /// token over a different message
    WrongMessage,
    /// one byte of the response flipped at a seeded position
    Flipped(u64),
    /// issued by a TSA that chains to a root the validator does not trust
    Untrusted,
}

#[derive(Default)]
pub struct TsaLog {
    /// (response bytes, message it accompanies, unix time of issue)
    pub issued: Vec<(Vec<u8>, Vec<u8>, i64)>,
}

/// Signer over an EE certificate of the pool with a simulated TSA peer and stapled OCSP.
pub struct PkiSigner {
    pub inner: c2pa::BoxedSigner,
    pub tsa: Tsa,
    pub ocsp: Option<Vec<u8>>,
    pub work: PathBuf,
    pub log: std::sync::Arc<Mutex<TsaLog>>,
    /// digest algorithm of the TSA's own CMS signature
    pub tsa_digest: &'static str,
}

pub fn ee_signer(ee: &str) -> Result<c2pa::BoxedSigner, String> {
    let chain = read(&format!("{ee}.chain.pem"));
    let key = read(&format!("{ee}.key"));
    c2pa::create_signer::from_keys(&chain, &key, SigningAlg::Ed25519, None).map_err(|e| format!("{e:?}"))
}

/// `openssl ts -reply` for `query` by TSA `name` ("tsa" | "tsa2"), serial kept in `work`.
pub fn ts_reply(name: &str, query: &[u8], work: &Path, signer_digest: &str) -> Result<Vec<u8>, String> {
    let _ = std::fs::create_dir_all(work);
    let cnf = std::fs::read_to_string(pool().join(format!("{name}.cnf"))).map_err(|e| e.to_string())?;
    let serial = work.join(format!("{name}.serial"));
    if !serial.exists() {
        let _ = std::fs::write(&serial, "01\n");
    }
    let cnf = cnf.replace(&pool().join(format!("{name}.serial")).to_string_lossy().to_string(), &serial.to_string_lossy());
    // the digest the TSA signs its SignerInfo with (the pool's configuration says sha256)
    let cnf = cnf.replace("signer_digest=sha256", &format!("signer_digest={signer_digest}"));
    let cnf_path = work.join(format!("{name}.cnf"));
    std::fs::write(&cnf_path, cnf).map_err(|e| e.to_string())?;
    let q = work.join("q.tsq");
    let r = work.join("r.tsr");
    std::fs::write(&q, query).map_err(|e| e.to_string())?;
    let o = Command::new(openssl())
        .args(["ts", "-reply", "-config"])
        .arg(&cnf_path)
        .args(["-section", "t", "-queryfile"])
        .arg(&q)
        .arg("-out")
        .arg(&r)
        .output()
        .map_err(|e| e.to_string())?;
    if !o.status.success() {
        return Err(format!("openssl ts -reply: {}", String::from_utf8_lossy(&o.stderr)));
    }
    std::fs::read(&r).map_err(|e| e.to_string())
}

/// Independent oracle: does OpenSSL accept `resp` as a time-stamp over `message` that chains
/// to one of the pool's roots?  (Whether the validator trusts that root is not part of this.)
pub fn ts_usable(resp: &[u8], message: &[u8], work: &Path) -> bool {
    let _ = std::fs::create_dir_all(work);
    let r = work.join("v.tsr");
    if std::fs::write(&r, resp).is_err() {
        return false;
    }
    let digest = hex::encode(Sha256::digest(message));
    Command::new(openssl())
        .args(["ts", "-verify", "-digest", &digest, "-sha256", "-in"])
        .arg(&r)
        .arg("-CAfile")
        .arg(pool().join("roots_both.pem"))
        .arg("-untrusted")
        .arg(pool().join("tsas_both.pem"))
        .output()
        .map(|o| o.status.success())
        .unwrap_or(false)
}

impl Signer for PkiSigner {
    fn sign(&self, data: &[u8]) -> c2pa::Result<Vec<u8>> {
        self.inner.sign(data)
    }
    fn alg(&self) -> SigningAlg {
        self.inner.alg()
    }
    fn certs(&self) -> c2pa::Result<Vec<Vec<u8>>> {
        self.inner.certs()
    }
    fn reserve_size(&self) -> usize {
        self.inner.reserve_size() + 8192
    }
    fn time_authority_url(&self) -> Option<String> {
        if self.tsa == Tsa::None {
            None
        } else {
            Some("http://tsa.sim.example/ts".into())
        }
    }
    fn ocsp_val(&self) -> Option<Vec<u8>> {
        self.ocsp.clone()
    }
    fn send_timestamp_request(&self, message: &[u8]) -> Option<c2pa::Result<Vec<u8>>> {
        crate::turnstile::yield_point("tsa");
        let (tsa_name, msg): (&str, Vec<u8>) = match self.tsa {
            Tsa::None => return None,
            Tsa::Untrusted => ("tsa2", message.to_vec()),
            Tsa::WrongMessage => {
                let mut m = message.to_vec();
                m.push(0x42);
                ("tsa", m)
            }
            _ => ("tsa", message.to_vec()),
        };
        let body = match self.timestamp_request_body(&msg) {
            Ok(b) => b,
            Err(e) => return Some(Err(e)),
        };
        let now = std::time::SystemTime::now().duration_since(std::time::UNIX_EPOCH).map(|d| d.as_secs() as i64).unwrap_or(0);
        match ts_reply(tsa_name, &body, &self.work, self.tsa_digest) {
            Ok(mut resp) => {
                if let Tsa::Flipped(k) = self.tsa {
                    if let Some(p) = flip_position(&resp, k) {
                        resp[p] ^= 1 << (k % 8);
                    }
                }
                if let Ok(mut g) = self.log.lock() {
                    g.issued.push((resp.clone(), message.to_vec(), now));
                }
                Some(Ok(resp))
            }
            Err(e) => Some(Err(c2pa::Error::OtherError(e.into()))),
        }
    }
}

/// Where a `Flipped(k)` fault lands: inside the TSTInfo payload (even k) or inside the CMS
/// signature value at the end of the token (odd k) - the two places where a changed byte
/// certainly breaks "imprint matches and CMS signature verifies".
pub fn flip_position(resp: &[u8], k: u64) -> Option<usize> {
    if k % 2 == 1 {
        let n = resp.len();
        if n < 80 {
            return None;
        }
        // inside the last 48 bytes: r / s of the ECDSA signature
        return Some(n - 1 - ((k / 2) as usize % 48));
    }
    // id-smime-ct-TSTInfo, then [0] EXPLICIT, then OCTET STRING
    let oid = [0x06, 0x0B, 0x2A, 0x86, 0x48, 0x86, 0xF7, 0x0D, 0x01, 0x09, 0x10, 0x01, 0x04];
    let at = crate::jumbf::find_sub(resp, &oid)? + oid.len();
    // A0 len 04 len  (short-form lengths for tokens of this size)
    if resp.get(at)? != &0xA0 {
        return None;
    }
    let mut p = at + 2;
    if resp.get(at + 1)? & 0x80 != 0 {
        p = at + 2 + (resp[at + 1] & 0x7f) as usize;
    }
    if resp.get(p)? != &0x04 {
        return None;
    }
    let (start, len) = if resp[p + 1] & 0x80 == 0 {
        (p + 2, resp[p + 1] as usize)
    } else {
        let nb = (resp[p + 1] & 0x7f) as usize;
        let mut l = 0usize;
        for i in 0..nb {
            l = (l << 8) | resp[p + 2 + i] as usize;
        }
        (p + 2 + nb, l)
    };
    // skip the first bytes (outer SEQUENCE header / version) so that the value, not only a
    // length octet, is hit
    if len < 16 {
        return None;
    }
    Some(start + 6 + ((k / 2) as usize % (len - 8)))
}
