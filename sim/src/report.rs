//! Canonical manifest report: what two reads are compared on.

use c2pa::Reader;
use serde_json::Value;

#[derive(Clone, Debug, PartialEq)]
pub struct Report {
    /// "Valid" | "Trusted" | "Invalid"
    pub state: String,
    /// canonical report (validation_time removed)
    pub json: Value,
    /// sorted multiset "bucket|code|url" from validation_results (all manifests + deltas)
    pub codes: Vec<String>,
    /// detailed json (assertion store incl. hash assertions), validation_time removed
    pub detailed: Value,
}

pub fn err_kind<E: std::fmt::Debug>(e: &E) -> String {
    let s = format!("{e:?}");
    let end = s
        .find(|c: char| c == '(' || c == '{' || c == ' ')
        .unwrap_or(s.len());
    s[..end].to_string()
}

pub fn err_full<E: std::fmt::Debug>(e: &E) -> String {
    let s = format!("{e:?}");
    s.chars().take(300).collect()
}

fn strip_time(v: &mut Value) {
    match v {
        Value::Object(m) => {
            m.shift_remove("validation_time");
            m.shift_remove("validationTime");
            for (_, x) in m.iter_mut() {
                strip_time(x);
            }
        }
        Value::Array(a) => {
            for x in a {
                strip_time(x);
            }
        }
        _ => {}
    }
}

fn collect_codes(bucket: &str, v: &Value, out: &mut Vec<String>) {
    // v is {"success":[..], "informational":[..], "failure":[..]}
    if let Value::Object(m) = v {
        for (k, list) in m {
            if let Value::Array(a) = list {
                for item in a {
                    let code = item.get("code").and_then(|c| c.as_str()).unwrap_or("?");
                    let url = item.get("url").and_then(|c| c.as_str()).unwrap_or("");
                    out.push(format!("{bucket}/{k}|{code}|{url}"));
                }
            }
        }
    }
}

impl Report {
    pub fn from_reader(r: &Reader) -> Report {
        let mut json: Value = serde_json::from_str(&r.json()).unwrap_or(Value::Null);
        strip_time(&mut json);
        let mut detailed: Value = serde_json::from_str(&r.detailed_json()).unwrap_or(Value::Null);
        strip_time(&mut detailed);
        let mut codes = Vec::new();
        if let Some(vr) = json.get("validation_results") {
            if let Some(am) = vr.get("activeManifest") {
                collect_codes("active", am, &mut codes);
            }
            if let Some(Value::Array(d)) = vr.get("ingredientDeltas") {
                for (i, x) in d.iter().enumerate() {
                    if let Some(vd) = x.get("validationDeltas") {
                        collect_codes(&format!("delta{i}"), vd, &mut codes);
                    }
                }
            }
        }
        codes.sort();
        Report {
            state: format!("{:?}", r.validation_state()),
            json,
            codes,
            detailed,
        }
    }

    pub fn is_ok_state(&self) -> bool {
        self.state == "Valid" || self.state == "Trusted"
    }

    pub fn active_label(&self) -> Option<&str> {
        self.json.get("active_manifest").and_then(|v| v.as_str())
    }

    pub fn active_manifest(&self) -> Option<&Value> {
        let l = self.active_label()?;
        self.json.get("manifests")?.get(l)
    }

    pub fn has_code(&self, code: &str) -> bool {
        self.codes.iter().any(|c| c.split('|').nth(1) == Some(code))
    }

    pub fn failure_codes(&self) -> Vec<String> {
        self.codes
            .iter()
            .filter(|c| c.contains("/failure|"))
            .map(|c| c.split('|').nth(1).unwrap_or("").to_string())
            .collect()
    }

    /// Short description for samples / logs.
    pub fn brief(&self) -> String {
        let f = self.failure_codes();
        if f.is_empty() {
            self.state.clone()
        } else {
            format!("{}[{}]", self.state, f.join(","))
        }
    }

    /// Projection used when the two sides were signed separately: drops what legitimately
    /// differs per signing (labels -> order of appearance, instance ids, times, hashes, pads).
    pub fn projected(&self) -> Value {
        let mut v = self.json.clone();
        let labels: Vec<String> = self.labels_in_order();
        project(&mut v, &labels);
        let mut codes: Vec<String> = self
            .codes
            .iter()
            .map(|c| replace_labels(c, &labels))
            .collect();
        codes.sort();
        serde_json::json!({ "state": self.state, "report": v, "codes": codes })
    }

    fn labels_in_order(&self) -> Vec<String> {
        // active first, then the others sorted by the title/claim order is unknowable: sort by
        // (number of ingredients desc, title) for stability
        let mut out = Vec::new();
        if let Some(a) = self.active_label() {
            out.push(a.to_string());
        }
        if let Some(Value::Object(m)) = self.json.get("manifests") {
            let mut rest: Vec<(String, String)> = m
                .iter()
                .filter(|(k, _)| Some(k.as_str()) != self.active_label())
                .map(|(k, v)| {
                    (
                        v.get("title").and_then(|t| t.as_str()).unwrap_or("").to_string(),
                        k.clone(),
                    )
                })
                .collect();
            rest.sort();
            out.extend(rest.into_iter().map(|(_, k)| k));
        }
        out
    }
}

fn replace_labels(s: &str, labels: &[String]) -> String {
    let mut out = s.to_string();
    for (i, l) in labels.iter().enumerate() {
        out = out.replace(l.as_str(), &format!("<M{i}>"));
    }
    out
}

const DROP_KEYS: [&str; 8] = [
    "instance_id",
    "instanceId",
    "time",
    "hash",
    "pad",
    "pad2",
    "when",
    "signature_info_time",
];

fn project(v: &mut Value, labels: &[String]) {
    match v {
        Value::Object(m) => {
            let keys: Vec<String> = m.keys().cloned().collect();
            for k in keys {
                if DROP_KEYS.contains(&k.as_str()) {
                    m.shift_remove(&k);
                    continue;
                }
                let nk = replace_labels(&k, labels);
                if nk != k {
                    if let Some(val) = m.shift_remove(&k) {
                        m.insert(nk, val);
                    }
                }
            }
            for (_, x) in m.iter_mut() {
                project(x, labels);
            }
        }
        Value::Array(a) => {
            for x in a {
                project(x, labels);
            }
        }
        Value::String(s) => {
            let n = replace_labels(s, labels);
            if n != *s {
                *s = n;
            }
        }
        _ => {}
    }
}
