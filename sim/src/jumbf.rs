//! Independent JUMBF box walker (shares no code with /repo): finds manifests, claims,
//! assertions and their content ranges inside a manifest store byte string.

#[derive(Clone, Debug)]
pub struct JBox {
    pub typ: [u8; 4],
    pub start: usize,
    pub end: usize,
    /// label from the jumd description box (superboxes only)
    pub label: Option<String>,
    pub children: Vec<JBox>,
}

fn parse_boxes(d: &[u8], mut p: usize, end: usize, depth: usize) -> Vec<JBox> {
    let mut out = Vec::new();
    while p + 8 <= end {
        let sz = u32::from_be_bytes([d[p], d[p + 1], d[p + 2], d[p + 3]]) as usize;
        let typ = [d[p + 4], d[p + 5], d[p + 6], d[p + 7]];
        let (hdr, size) = if sz == 1 {
            if p + 16 > end {
                break;
            }
            (16, u64::from_be_bytes(d[p + 8..p + 16].try_into().unwrap()) as usize)
        } else if sz == 0 {
            (8, end - p)
        } else {
            (8, sz)
        };
        if size < hdr || p + size > end {
            break;
        }
        let mut b = JBox { typ, start: p, end: p + size, label: None, children: vec![] };
        if &typ == b"jumb" && depth < 32 {
            b.children = parse_boxes(d, p + hdr, p + size, depth + 1);
            if let Some(jd) = b.children.first() {
                if &jd.typ == b"jumd" {
                    // uuid(16) toggles(1) label(cstr)
                    let q = jd.start + 8;
                    if q + 17 <= jd.end && d[q + 16] & 0x02 != 0 {
                        let ls = q + 17;
                        if let Some(n) = d[ls..jd.end].iter().position(|c| *c == 0) {
                            b.label = Some(String::from_utf8_lossy(&d[ls..ls + n]).to_string());
                        }
                    }
                }
            }
        }
        out.push(b);
        p += size;
    }
    out
}

pub fn parse(d: &[u8]) -> Vec<JBox> {
    parse_boxes(d, 0, d.len(), 0)
}

#[derive(Clone, Debug)]
pub struct Region {
    /// "claim" | "assertion" | "signature" | "other"
    pub kind: &'static str,
    pub manifest: String,
    pub label: String,
    pub start: usize,
    pub end: usize,
}

/// Content regions (relative to the store) whose attribution is certain.
pub fn regions(d: &[u8]) -> Vec<Region> {
    let mut out = Vec::new();
    let top = parse(d);
    let Some(store) = top.first() else { return out };
    for m in &store.children {
        if &m.typ != b"jumb" {
            continue;
        }
        let ml = m.label.clone().unwrap_or_default();
        for c in &m.children {
            if &c.typ != b"jumb" {
                continue;
            }
            let cl = c.label.clone().unwrap_or_default();
            if cl.starts_with("c2pa.claim") {
                for cb in c.children.iter().skip(1) {
                    out.push(Region { kind: "claim", manifest: ml.clone(), label: cl.clone(), start: cb.start + 8, end: cb.end });
                }
            } else if cl == "c2pa.signature" {
                for cb in c.children.iter().skip(1) {
                    out.push(Region { kind: "signature", manifest: ml.clone(), label: cl.clone(), start: cb.start + 8, end: cb.end });
                }
            } else if cl == "c2pa.assertions" {
                for a in &c.children {
                    if &a.typ != b"jumb" {
                        continue;
                    }
                    let al = a.label.clone().unwrap_or_default();
                    // payload bytes of the assertion's content boxes (headers and the
                    // description box are left to the three-way disjunction)
                    for cb in a.children.iter().skip(1) {
                        out.push(Region { kind: "assertion", manifest: ml.clone(), label: al.clone(), start: cb.start + 8, end: cb.end });
                    }
                }
            }
        }
    }
    out
}

/// (start, end) of sibling boxes directly under the first manifest's assertion store.
pub fn assertion_boxes(d: &[u8]) -> Vec<(usize, usize)> {
    let top = parse(d);
    let mut out = Vec::new();
    if let Some(store) = top.first() {
        for m in &store.children {
            for c in &m.children {
                if c.label.as_deref() == Some("c2pa.assertions") {
                    for a in &c.children {
                        if &a.typ == b"jumb" {
                            out.push((a.start, a.end));
                        }
                    }
                }
            }
        }
    }
    out
}

pub fn find_sub(hay: &[u8], needle: &[u8]) -> Option<usize> {
    if needle.is_empty() || needle.len() > hay.len() {
        return None;
    }
    hay.windows(needle.len()).position(|w| w == needle)
}

/// Replace d[pos..pos+remove) by `insert` and adjust the 32-bit size field of every superbox
/// that properly encloses the box `sib` (the box being dropped, replaced or inserted next to).
pub fn splice(d: &[u8], pos: usize, remove: usize, insert: &[u8], sib: (usize, usize)) -> Option<Vec<u8>> {
    fn collect(bs: &[JBox], sib: (usize, usize), out: &mut Vec<usize>) {
        for b in bs {
            if &b.typ == b"jumb" && b.start <= sib.0 && b.end >= sib.1 && (b.start, b.end) != sib {
                out.push(b.start);
                collect(&b.children, sib, out);
            }
        }
    }
    let mut anc = Vec::new();
    collect(&parse(d), sib, &mut anc);
    let mut v = Vec::with_capacity(d.len() + insert.len());
    v.extend_from_slice(&d[..pos]);
    v.extend_from_slice(insert);
    v.extend_from_slice(&d[pos + remove..]);
    for a in anc {
        let old = u32::from_be_bytes(d[a..a + 4].try_into().ok()?) as i64;
        if old < 8 {
            return None; // extended or to-end sizes: not produced by the SDK writer
        }
        let new = old + insert.len() as i64 - remove as i64;
        if new < 8 || new > u32::MAX as i64 {
            return None;
        }
        v[a..a + 4].copy_from_slice(&(new as u32).to_be_bytes());
    }
    Some(v)
}

/// (start, end) of the claim and signature superboxes of the last (active) manifest.
pub fn claim_and_signature(d: &[u8]) -> Option<((usize, usize), (usize, usize))> {
    let top = parse(d);
    let m = top.first()?.children.iter().filter(|c| &c.typ == b"jumb").last()?;
    let c = m.children.iter().find(|c| c.label.as_deref().map(|l| l.starts_with("c2pa.claim")).unwrap_or(false))?;
    let s = m.children.iter().find(|c| c.label.as_deref() == Some("c2pa.signature"))?;
    Some(((c.start, c.end), (s.start, s.end)))
}
