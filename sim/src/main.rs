mod assets;
mod exec;
mod harness;
mod ops;
mod props;
mod report;
mod rng;
mod sdk;
mod stream;
mod turnstile;

use harness::Tier;

fn arg(args: &[String], name: &str) -> Option<String> {
    args.iter()
        .position(|a| a == name)
        .and_then(|i| args.get(i + 1).cloned())
}

fn main() {
    let args: Vec<String> = std::env::args().collect();
    if args.len() < 3 {
        eprintln!("usage: c2pasim check <ID> [--tier quick|thorough] [--seed N] [--replay file]");
        std::process::exit(2);
    }
    let cmd = args[1].as_str();
    let id = args[2].as_str();
    let Some(p) = props::get(id) else {
        eprintln!("unknown property {id}");
        std::process::exit(2);
    };
    let tier = Tier::parse(
        &arg(&args, "--tier")
            .or_else(|| std::env::var("VERIF_TIER").ok())
            .unwrap_or_else(|| "quick".into()),
    );
    let seed: u64 = arg(&args, "--seed")
        .or_else(|| std::env::var("VERIF_SEED").ok())
        .and_then(|s| s.parse().ok())
        .unwrap_or(1);
    // silence the default panic message flood from caught panics in workers
    if cmd != "check" {
        std::panic::set_hook(Box::new(|_| {}));
    }
    match cmd {
        "check" => {
            if let Some(path) = arg(&args, "--replay") {
                // replay in a fresh child so that a crash is an observation
                let exe = std::env::current_exe().expect("exe");
                let st = std::process::Command::new(exe)
                    .args(["replay-child", id, "--replay", &path])
                    .status()
                    .expect("spawn");
                use std::os::unix::process::ExitStatusExt;
                if let Some(sig) = st.signal() {
                    println!("replay of {path}: child died with signal {sig}");
                    println!("VIOLATION property={id} replay={path}");
                    std::process::exit(1);
                }
                std::process::exit(st.code().unwrap_or(2));
            }
            std::process::exit(harness::check(p, tier, seed));
        }
        "replay-child" => {
            let path = arg(&args, "--replay").expect("--replay");
            std::process::exit(harness::replay(p, &path));
        }
        "worker" => {
            let g = |n: &str, d: u64| arg(&args, n).and_then(|s| s.parse().ok()).unwrap_or(d);
            harness::worker(
                p,
                tier,
                seed,
                g("--from", 0),
                g("--to", 0),
                g("--step", 1),
                g("--deadline", 3600),
                args.iter().any(|a| a == "--trace"),
            );
        }
        _ => {
            eprintln!("unknown command {cmd}");
            std::process::exit(2);
        }
    }
}
