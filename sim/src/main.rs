mod alloc;
mod assets;
mod corrupt;
mod defs;
mod exec;
mod forge;
mod harness;
mod jumbf;
mod media;
mod net;
mod ops;
mod pki;
mod props;
mod report;
mod rng;
mod sdk;
mod stream;
mod turnstile;

use harness::Tier;

#[global_allocator]
static GLOBAL: alloc::Counting = alloc::Counting;

fn arg(args: &[String], name: &str) -> Option<String> {
    args.iter()
        .position(|a| a == name)
        .and_then(|i| args.get(i + 1).cloned())
}

fn main() {
    let args: Vec<String> = std::env::args().collect();
    if args.len() < 3 {
        eprintln!("usage: c2pasim check <ID> [--tier quick|thorough] [--seed N] [--replay file]");
        std::process::exit(2);
    }
    let args: Vec<String> = {
        // `--trace` may come first (spawned by the harness); normalise
        let mut a = args;
        if a.get(1).map(|s| s == "--trace").unwrap_or(false) {
            let t = a.remove(1);
            a.push(t);
        }
        a
    };
    let cmd = args[1].as_str();
    let id = args[2].as_str();
    if cmd == "svgprobe" {
        let f = assets::Fmt::from_name(id).expect("fmt");
        let mut r = rng::Rng::new(3);
        let a = assets::generate(f, &mut r);
        let st = props::embed::make_store(60, 1);
        let w = c2pa::jumbf_io::save_jumbf_to_memory(f.mime(), &a, &st).unwrap();
        let mut o = std::io::Cursor::new(Vec::new());
        c2pa::verif::remove_jumbf_from_stream(f.mime(), &mut std::io::Cursor::new(w.clone()), &mut o).unwrap();
        println!("--- original\n{}\n--- written\n{}\n--- removed\n{}", String::from_utf8_lossy(&a), String::from_utf8_lossy(&w), String::from_utf8_lossy(o.get_ref()));
        return;
    }
    if cmd == "dump-ing" {
        let f = assets::Fmt::from_name(id).expect("fmt");
        let ctx = std::sync::Arc::new(sdk::make_context(&serde_json::json!({})));
        let mut r = rng::Rng::new(1);
        let a = assets::generate(f, &mut r);
        let mut s = sdk::sign_plain(&ctx, &sdk::simple_definition("A"), "ed25519", f.mime(), &a).expect("sign");
        if args.get(3).map(|x| x == "corrupt").unwrap_or(false) { let n = s.len(); s[n - 5] ^= 1; }
        let mut b = c2pa::Builder::from_shared_context(&ctx).with_definition(sdk::simple_definition("B")).unwrap();
        b.add_ingredient_from_stream(serde_json::json!({"title":"ing","relationship":"parentOf"}).to_string(), f.mime(), &mut std::io::Cursor::new(s)).unwrap();
        let mut d = std::io::Cursor::new(Vec::new());
        b.sign(sdk::make_signer("ed25519").as_ref(), f.mime(), &mut std::io::Cursor::new(assets::generate(f, &mut r)), &mut d).unwrap();
        let rep = sdk::read_plain(&ctx, f.mime(), &d.into_inner()).expect("read");
        println!("{}", serde_json::to_string_pretty(&rep.json).unwrap());
        return;
    }
    if cmd == "dump" {
        // dump <fmt> <default|box> : sign a tiny asset and print the detailed report
        let f = assets::Fmt::from_name(id).expect("fmt");
        let b = if args.get(3).map(|s| s == "box").unwrap_or(false) { sdk::Binding::Box } else { sdk::Binding::Default };
        let ctx = std::sync::Arc::new(sdk::make_context(&sdk::binding_overlay(b)));
        let mut r = rng::Rng::new(1);
        let a = assets::generate(f, &mut r);
        let s = sdk::sign_plain(&ctx, &sdk::simple_definition("dump"), "ed25519", f.mime(), &a).expect("sign");
        let rep = sdk::read_plain(&ctx, f.mime(), &s).expect("read");
        println!("{}", serde_json::to_string_pretty(&rep.detailed).unwrap());
        if let Some(out) = args.get(4) { std::fs::write(out, &s).unwrap(); }
        return;
    }
    let Some(p) = props::get(id) else {
        eprintln!("unknown property {id}");
        std::process::exit(2);
    };
    let tier = Tier::parse(
        &arg(&args, "--tier")
            .or_else(|| std::env::var("VERIF_TIER").ok())
            .unwrap_or_else(|| "quick".into()),
    );
    let seed: u64 = arg(&args, "--seed")
        .or_else(|| std::env::var("VERIF_SEED").ok())
        .and_then(|s| s.parse().ok())
        .unwrap_or(1);
    // silence the default panic message flood from caught panics in workers
    if cmd != "check" {
        sdk::install_panic_hook();
    }
    match cmd {
        "check" => {
            if let Some(path) = arg(&args, "--replay") {
                // replay in a fresh child so that a crash is an observation
                let exe = std::env::current_exe().expect("exe");
                let st = std::process::Command::new(exe)
                    .args(["replay-child", id, "--replay", &path])
                    .status()
                    .expect("spawn");
                use std::os::unix::process::ExitStatusExt;
                if let Some(sig) = st.signal() {
                    println!("replay of {path}: child died with signal {sig}");
                    println!("VIOLATION property={id} replay={path}");
                    std::process::exit(1);
                }
                std::process::exit(st.code().unwrap_or(2));
            }
            std::process::exit(harness::check(p, tier, seed));
        }
        "child-read" => {
            let g = |n: &str| arg(&args, n).unwrap_or_default();
            std::process::exit(props::c38::child_read(&g("--fmt"), &g("--file"), &g("--settings")));
        }
        "replay-child" => {
            let path = arg(&args, "--replay").expect("--replay");
            std::process::exit(harness::replay(p, &path));
        }
        "worker" => {
            let g = |n: &str, d: u64| arg(&args, n).and_then(|s| s.parse().ok()).unwrap_or(d);
            harness::worker(
                p,
                tier,
                seed,
                g("--from", 0),
                g("--to", 0),
                g("--step", 1),
                g("--deadline", 3600),
                args.iter().any(|a| a == "--trace"),
            );
        }
        _ => {
            eprintln!("unknown command {cmd}");
            std::process::exit(2);
        }
    }
}
