//! Seeded manifest definitions and signing configurations (shared by C03, C22, C24, C38, C40).

use serde_json::{json, Value};

use crate::rng::Rng;

pub struct Gen {
    pub def: Value,
    pub alg: &'static str,
    /// user assertions (label, data) as supplied
    pub assertions: Vec<(String, Value)>,
    pub title: String,
    pub generator: String,
    pub claim_version: u8,
    pub hash_alg: Option<&'static str>,
}

fn payload(r: &mut Rng) -> Value {
    // string sizes straddling CBOR length boundaries
    let n = match r.below(10) {
        0 => 22 + r.below(4),
        1 => 254 + r.below(4),
        2 => 65_534 + r.below(4),
        3 => 0,
        _ => r.below(200),
    } as usize;
    let s: String = (0..n).map(|i| (b'a' + ((i * 7 + n) % 26) as u8) as char).collect();
    match r.below(4) {
        0 => json!({ "text": s }),
        1 => json!({ "n": r.below(1 << 40), "flag": r.chance(1, 2), "text": s }),
        2 => json!({ "list": (0..r.below(6)).map(|i| json!({"i": i, "v": s.chars().take(8).collect::<String>()})).collect::<Vec<_>>() }),
        _ => json!({ "nested": { "a": { "b": { "c": s } } }, "unicode": "héllo – 日本" }),
    }
}

pub fn generate(r: &mut Rng, allow_slow_algs: bool) -> Gen {
    let title = format!("title-{}", r.ident(1, 12));
    let generator = format!("gen_{}", r.ident(1, 8));
    let claim_version = if r.chance(1, 4) { 1 } else { 2 };
    let mut assertions: Vec<(String, Value)> = Vec::new();
    for _ in 0..r.below(4) {
        let label = format!("org.sim.{}", r.ident(1, 10));
        if assertions.iter().any(|(l, _)| *l == label) {
            continue;
        }
        assertions.push((label, payload(r)));
    }
    // now and then the same label twice (reported as label and label__1, in this order)
    if claim_version == 2 && !assertions.is_empty() && r.chance(1, 5) {
        let l = assertions[0].0.clone();
        assertions.push((l, payload(r)));
    }
    // a label family now and then: the same label twice, a longer label that contains it, and the
    // first label again (instance numbering has to keep all of them apart)
    if claim_version == 2 && r.chance(1, 6) {
        let base = format!("org.sim.fam{}", r.ident(1, 4));
        let longer = format!("{base}{}", *r.pick(&[".more", "x", "_b"]));
        assertions.push((base.clone(), payload(r)));
        assertions.push((base.clone(), payload(r)));
        assertions.push((longer, payload(r)));
        assertions.push((base, payload(r)));
    }
    let mut list: Vec<Value> = Vec::new();
    let action = if claim_version == 1 {
        json!({ "label": "c2pa.actions", "data": { "actions": [ { "action": "c2pa.created" } ] } })
    } else {
        json!({ "label": "c2pa.actions", "data": { "actions": [ { "action": "c2pa.created",
            "digitalSourceType": "http://cv.iptc.org/newscodes/digitalsourcetype/digitalCapture" } ] } })
    };
    list.push(action);
    for (l, d) in &assertions {
        list.push(json!({ "label": l, "data": d }));
    }
    let algs: &[&'static str] = if allow_slow_algs {
        &["ed25519", "es256", "es384", "es512", "ps256", "ps384", "ps512", "es256-der", "es512-der"]
    } else {
        &["ed25519", "es256", "es384", "es384-der"]
    };
    let alg = *r.pick(algs);
    let hash_alg = *r.pick(&[None, None, Some("sha256"), Some("sha384"), Some("sha512")]);
    let mut def = json!({
        "title": title,
        "claim_version": claim_version,
        "claim_generator_info": [{ "name": generator, "version": "1.0" }],
        "assertions": list,
    });
    if let Some(h) = hash_alg {
        def["hash_alg"] = json!(h);
    }
    Gen { def, alg, assertions, title, generator, claim_version, hash_alg }
}
