//! C01 — tamper evidence of content: every single stored-byte fault on a signed tiny asset.

use std::sync::Arc;

use serde_json::json;

use crate::{
    assets::{self, Fmt},
    corrupt::{self, Fault, Ranges},
    harness::{Meta, Property, RunCtx, RunOut, Tier},
    rng::hash_str,
    sdk::{self, Binding},
};

pub struct C01;

pub const SHARDS: u64 = 8;

pub fn bindings() -> Vec<(Fmt, Binding)> {
    let mut v = Vec::new();
    for f in assets::ALL {
        v.push((f, Binding::Default));
        if sdk::fmt_supports_box(f) {
            v.push((f, Binding::Box));
        }
    }
    // "including update manifests": the asset carries an update manifest, the binding in force
    // is its parent's (C21 runs the whole list of formats; C01 keeps one data-hash and one BMFF case)
    v.push((Fmt::Jpeg, Binding::Update));
    v.push((Fmt::Mp4, Binding::Update));
    v.push((Fmt::Jpeg, Binding::NoTrust));
    v.push((Fmt::Mp4, Binding::NoTrust));
    v.push((Fmt::Mp4, Binding::MerkleAligned));
    v.push((Fmt::Mp4, Binding::Merkle));
    v
}

pub struct Signed {
    pub fmt: Fmt,
    pub binding: Binding,
    pub ctx: Arc<c2pa::Context>,
    pub bytes: Vec<u8>,
    pub clean: crate::report::Report,
    pub kind: String,
    pub excl: Ranges,
}

pub fn box_map_of(fmt: Fmt, bytes: &[u8]) -> Option<Vec<(Vec<String>, u64, u64, Option<bool>)>> {
    let mut c = std::io::Cursor::new(bytes.to_vec());
    c2pa::verif::box_map_from_stream(fmt.mime(), &mut c).ok().flatten()
}

pub fn sign_for(rc: &mut RunCtx, fmt: Fmt, binding: Binding, variant: u64) -> Result<Signed, String> {
    let overlay = sdk::binding_overlay(binding);
    let ctx = Arc::new(sdk::make_context(&overlay));
    let mut ar = crate::rng::Rng::new(hash_str(&format!("{}-{}-{variant}", rc.seed, fmt.name())));
    let asset = match binding {
        // leaf-covered part = mdat box minus its first 16 bytes
        Binding::MerkleAligned => assets::mp4_with_mdat_size(&mut ar, 16 + 1024 * (2 + (variant as usize % 2))),
        Binding::Merkle => assets::mp4_with_mdat_size(&mut ar, 16 + 1024 + [1usize, 1023, 500][variant as usize % 3]),
        _ => assets::generate(fmt, &mut ar),
    };
    let def = sdk::simple_definition("c01");
    let ctx2 = ctx.clone();
    let mut err = None;
    // every shard of the same (format, binding, variant) must sign byte-identical artefacts
    c2pa::verif::set_random_seed(Some(hash_str(&format!("art-{}-{}-{:?}-{variant}", rc.seed, fmt.name(), binding))));
    let bytes = rc.artefact("signed", || match sdk::sign_plain(&ctx2, &def, "ed25519", fmt.mime(), &asset) {
        Ok(b) => b,
        Err(e) => {
            err = Some(e);
            vec![]
        }
    });
    if let Some(e) = err {
        return Err(format!("sign: {e}"));
    }
    let clean = sdk::read_plain(&ctx, fmt.mime(), &bytes).map_err(|e| format!("clean read: {e}"))?;
    if !clean.is_ok_state() {
        return Err(format!("clean read not valid: {}", clean.brief()));
    }
    let bm = box_map_of(fmt, &bytes);
    let (kind, excl) = corrupt::declared_exclusions(&clean.detailed, &bytes, bm.as_deref())
        .ok_or_else(|| "no hard binding assertion in detailed report".to_string())?;
    Ok(Signed { fmt, binding, ctx, bytes, clean, kind, excl })
}

/// Evaluate one fault against the C01 oracle. Returns (non-trivial?, outcome label).
pub fn judge(out: &mut RunOut, sub: u64, s: &Signed, f: &Fault, tag: &str, prop: &str) -> &'static str {
    let Some(m) = f.apply(&s.bytes) else { return "noop" };
    out.evals += 1;
    out.fault(f.kind());
    let r = match sdk::guarded(|| sdk::read_plain(&s.ctx, s.fmt.mime(), &m)) {
        Ok(r) => r,
        Err(p) => {
            let loc = p.split('|').next().unwrap_or("?").to_string();
            out.violate(sub, &format!("panic:{loc}"), "G1 no panic on untrusted bytes",
                json!({"scenario": tag, "fault": f.describe(), "panic": p}));
            return "PANIC";
        }
    };
    let rep = match r {
        Err(_) => return "err",
        Ok(rep) => rep,
    };
    if !rep.is_ok_state() {
        return "invalid";
    }
    // Valid / Trusted: the modification must be confined to declared exclusions and the
    // report must be unchanged.
    let confined = if f.changes_len() {
        // a length change moves every later byte: acceptable only when nothing non-excluded
        // follows the first affected position AND that position itself is excluded
        let p = f.first_pos();
        if p == usize::MAX {
            false // append: new bytes exist that no exclusion declared on the original covers
        } else {
            let later_all_excluded = (p..s.bytes.len()).all(|q| corrupt::in_ranges(&s.excl, q));
            later_all_excluded
        }
    } else {
        (0..s.bytes.len()).filter(|i| s.bytes[*i] != m[*i]).all(|i| corrupt::in_ranges(&s.excl, i))
    };
    let same_report = rep.json == s.clean.json && rep.codes == s.clean.codes;
    if !confined {
        let region = region_name(s, f);
        // root cause attribution for box hash: are the changed bytes outside every box of the
        // SDK's own box map of the mutated file?
        let mut fp = format!("content-change-undetected:{}:{}:{}:{}", s.fmt.name(), s.kind, f.kind(), region);
        if s.kind == "box" {
            if let Some(bm) = box_map_of(s.fmt, &m) {
                // any byte of the mutated file outside every box?
                let mut cov = vec![false; m.len()];
                for (_, st, l, _) in &bm {
                    for q in (*st as usize)..((*st + *l) as usize).min(m.len()) {
                        cov[q] = true;
                    }
                }
                if !cov.iter().all(|c| *c) {
                    // ... and was the asset as signed covered completely?  Only then is this the
                    // known class "bytes added outside every box"; a box map that already leaves
                    // bytes of the signed asset out is something else
                    let clean_covered = box_map_of(s.fmt, &s.bytes)
                        .map(|bm0| {
                            let mut c0 = vec![false; s.bytes.len()];
                            for (_, st, l, _) in &bm0 {
                                for q in (*st as usize)..((*st + *l) as usize).min(s.bytes.len()) {
                                    c0[q] = true;
                                }
                            }
                            c0.iter().all(|c| *c)
                        })
                        .unwrap_or(false);
                    fp = if clean_covered {
                        format!("box-hash-uncovered-bytes:{}", s.fmt.name())
                    } else {
                        format!("box-map-of-signed-asset-incomplete:{}:{}", s.fmt.name(), f.kind())
                    };
                }
            }
        }
        out.violate(sub, &fp,
            "C01 Valid/Trusted => modification confined to declared exclusions",
            json!({"scenario": tag, "property": prop, "fault": f.describe(), "state": rep.state, "binding": s.kind,
                   "declared_exclusions": s.excl, "asset_len": s.bytes.len(), "region": region}));
        return "VIOLATION";
    }
    if !same_report {
        let d = first_diff(&s.clean.json, &rep.json, "");
        // root cause class: the reader fell back to an earlier manifest of the same store
        let rollback = match (rep.active_label(), s.clean.active_label()) {
            (Some(n), Some(o)) => n != o && s.clean.json.get("manifests").and_then(|m| m.get(n)).is_some(),
            _ => false,
        };
        let fp = if rollback {
            format!("rollback-to-earlier-manifest:{}:{}", s.fmt.name(), s.kind)
        } else {
            format!("report-changed-but-valid:{}:{}:{}", s.fmt.name(), s.kind, f.kind())
        };
        out.violate(sub, &fp,
            "C01 Valid/Trusted => reported manifest content unchanged",
            json!({"scenario": tag, "fault": f.describe(), "state": rep.state, "first_difference": d,
                   "codes_equal": rep.codes == s.clean.codes}));
        return "VIOLATION";
    }
    "valid_confined"
}

/// coarse, seed-independent name of where a fault landed (for fingerprints)
fn region_name(s: &Signed, f: &Fault) -> &'static str {
    let p = f.first_pos();
    if p == usize::MAX || p >= s.bytes.len() {
        return "after-end";
    }
    let first_ex = s.excl.iter().map(|r| r.0).min().unwrap_or(usize::MAX);
    let last_ex = s.excl.iter().map(|r| r.1).max().unwrap_or(0);
    if p < first_ex {
        "before-manifest"
    } else if p >= last_ex {
        "after-manifest"
    } else {
        "between-exclusions"
    }
}

impl Property for C01 {
    fn meta(&self) -> Meta {
        Meta {
            id: "C01",
            level: "fault_enumeration",
            rule: "one evaluation = Reader::with_stream on a signed tiny asset after ONE stored-byte fault applied between sign and read: every byte position x {^0x01, ^0x80, ^0xFF, =0x00}, truncation at every length, 1-byte insert at every position, 1-byte delete at every position, appends of 1/2/8/64 bytes, duplicate/drop/swap of every 64- and 512-byte aligned block; for every writable format (11) under data hash / BMFF hash and, for JPEG/PNG/GIF/JXL, box hash. Non-trivial = the fault changed the bytes; distinct = distinct (format, binding, fault). Thorough adds 3 more structural variants per format",
            assumptions: &[
                "declared exclusions are read from the hard-binding assertion in Reader::detailed_json of the clean read and placed on the original bytes (box-hash entries via the SDK box map, BMFF xpaths via the simulator's own top-level box walker)",
                "Err and Invalid are always acceptable outcomes",
            ],
            real: &["c2pa SDK reader/validator", "asset handlers", "signing with the Ed25519 fixture credential"],
            stubbed: &["storage between sign and read (byte faults applied in memory)"],
            crash_prop: "C10",
        }
    }

    fn runs(&self, tier: Tier) -> u64 {
        let n = bindings().len() as u64 * SHARDS;
        match tier {
            Tier::Quick => n,
            Tier::Thorough => n * 4,
        }
    }

    fn exhaustive(&self, _tier: Tier) -> bool {
        true
    }

    fn run(&self, rc: &mut RunCtx) -> RunOut {
        let mut out = RunOut::default();
        let b = bindings();
        let per = b.len() as u64 * SHARDS;
        let variant = rc.idx / per;
        let within = rc.idx % per;
        let (fmt, binding) = b[(within / SHARDS) as usize];
        let shard = within % SHARDS;
        let signed = if binding == Binding::Update { crate::props::c21::build(rc, fmt, Binding::Default, variant, false) } else { sign_for(rc, fmt, binding, variant) };
        let s = match signed {
            Ok(s) => s,
            Err(e) => {
                out.harness_error = Some(format!("{}:{:?}: {e}", fmt.name(), binding));
                return out;
            }
        };
        let tag = format!("{}:{:?}:v{variant}", fmt.name(), binding);
        let faults = corrupt::enumerate(s.bytes.len());
        let mut tally = std::collections::BTreeMap::<&'static str, u64>::new();
        for (i, f) in faults.iter().enumerate() {
            if i as u64 % SHARDS != shard {
                continue;
            }
            let sub = i as u64;
            if !rc.want_sub(sub) {
                continue;
            }
            rc.mark(sub);
            let o = judge(&mut out, sub, &s, f, &tag, "C01");
            *tally.entry(o).or_insert(0) += 1;
            if o != "noop" {
                out.keys.push(hash_str(&format!("{tag}|{i}")));
            }
        }
        for (k, v) in &tally {
            out.probe_n(&format!("outcome:{k}"), *v);
        }
        if shard == 0 {
            out.sample = Some(json!({"scenario": tag, "signed_len": s.bytes.len(), "binding": s.kind,
                "declared_exclusions": s.excl, "faults_total": faults.len(), "outcomes_this_shard": tally}));
        }
        out.digest = hash_str(&format!("{tag}|{}|{:?}", faults.len(), tally));
        out
    }
}

/// Path and values of the first difference between two JSON values.
pub fn first_diff(a: &serde_json::Value, b: &serde_json::Value, path: &str) -> String {
    use serde_json::Value as V;
    match (a, b) {
        (V::Object(x), V::Object(y)) => {
            for (k, v) in x {
                match y.get(k) {
                    None => return format!("{path}/{k}: missing on the right"),
                    Some(w) if w != v => return first_diff(v, w, &format!("{path}/{k}")),
                    _ => {}
                }
            }
            for k in y.keys() {
                if !x.contains_key(k) {
                    return format!("{path}/{k}: missing on the left");
                }
            }
            "equal".into()
        }
        (V::Array(x), V::Array(y)) => {
            for (i, (v, w)) in x.iter().zip(y.iter()).enumerate() {
                if v != w {
                    return first_diff(v, w, &format!("{path}[{i}]"));
                }
            }
            format!("{path}: array length {} vs {}", x.len(), y.len())
        }
        _ => {
            let f = |v: &V| serde_json::to_string(v).unwrap_or_default().chars().take(120).collect::<String>();
            format!("{path}: {} vs {}", f(a), f(b))
        }
    }
}
