//! C35 — results do not depend on stream chunking; I/O errors are never hidden.
//! Fault enumeration over every stream-call index of each (operation, format, binding).

use serde_json::json;

use crate::{
    assets::{self, Fmt},
    harness::{Meta, Property, RunCtx, RunOut, Tier},
    ops::{self, ExecEnv, Op, Outcome, Scenario},
    rng::{hash_str, Rng},
    sdk::{self, Binding},
    stream::{self, FaultPlan, OpKind},
};

pub struct C35;

pub fn scenarios() -> Vec<(Op, Fmt, Binding)> {
    let mut v = Vec::new();
    for op in ops::ALL_OPS {
        for f in assets::ALL {
            if op == Op::Embeddable && !matches!(f, Fmt::Jpeg | Fmt::Png | Fmt::Gif | Fmt::Jxl) {
                continue;
            }
            if op == Op::Embeddable {
                v.push((op, f, Binding::Default));
                continue;
            }
            v.push((op, f, Binding::Default));
            if sdk::fmt_supports_box(f) && !matches!(op, Op::JumbfLoad | Op::JumbfSave) {
                v.push((op, f, Binding::Box));
            }
        }
    }
    v
}

pub fn build_scenario(
    rc: &mut RunCtx,
    op: Op,
    fmt: Fmt,
    binding: Binding,
) -> Result<(Scenario, std::sync::Arc<c2pa::Context>, std::sync::Arc<c2pa::Context>), String> {
    let overlay = sdk::binding_overlay(binding);
    let ctx = ops::make_ctx(&overlay);
    let vctx = std::sync::Arc::new(sdk::make_context(&overlay));
    let mut ar = rc.rng.fork("asset");
    let asset = assets::generate(fmt, &mut ar);
    let def = sdk::simple_definition(&format!("t{}", rc.idx));
    let mut sc = ops::prepare(op, fmt, "ed25519", asset, def, &vctx)?;
    // artefacts whose bytes depend on OS randomness are pinned for replay
    sc.signed = rc.artefact("signed", || sc.signed.clone());
    sc.sidecar = rc.artefact("sidecar", || sc.sidecar.clone());
    sc.archive = rc.artefact("archive", || sc.archive.clone());
    Ok((sc, ctx, vctx))
}

struct Eval {
    outcome: Outcome,
    st: stream::WorldStats,
}

fn eval(sc: &Scenario, ctx: &std::sync::Arc<c2pa::Context>, vctx: &std::sync::Arc<c2pa::Context>, plan: FaultPlan, rng: Option<Rng>, record: bool) -> (Eval, stream::WorldRef) {
    eval2(sc, ctx, vctx, plan, rng, record, false)
}

/// Re-run a failing fault plan with call-site capture; returns the SDK site that met the fault.
fn site_of(sc: &Scenario, ctx: &std::sync::Arc<c2pa::Context>, vctx: &std::sync::Arc<c2pa::Context>, plan: FaultPlan) -> String {
    let (_, w) = eval2(sc, ctx, vctx, plan, None, false, true);
    let s = w.lock().unwrap().site.clone();
    s.unwrap_or_else(|| "unknown".into())
}

fn eval2(sc: &Scenario, ctx: &std::sync::Arc<c2pa::Context>, vctx: &std::sync::Arc<c2pa::Context>, plan: FaultPlan, rng: Option<Rng>, record: bool, capture: bool) -> (Eval, stream::WorldRef) {
    let world = stream::new_world(plan, rng);
    world.lock().unwrap().record = record;
    world.lock().unwrap().capture_site = capture;
    ops::cb_reset(Some(world.clone()), None);
    let env = ExecEnv { ctx, verify_ctx: vctx, world: &world, pend: None };
    let outcome = ops::exec(sc, &env);
    ops::cb_reset(None, None);
    let st = stream::stats(&world);
    (Eval { outcome, st }, world)
}

fn pick_sites(n: u64, max: usize, rng: &mut Rng) -> Vec<u64> {
    if n as usize <= max {
        return (0..n).collect();
    }
    // stratified: one per stratum plus the first and last few
    let mut v: Vec<u64> = Vec::new();
    let strata = max.saturating_sub(6).max(1) as u64;
    for s in 0..strata {
        let lo = s * n / strata;
        let hi = ((s + 1) * n / strata).max(lo + 1);
        v.push(lo + rng.below(hi - lo));
    }
    for k in [0, 1, 2, n - 3, n - 2, n - 1] {
        if k < n {
            v.push(k);
        }
    }
    v.sort();
    v.dedup();
    v
}

impl Property for C35 {
    fn meta(&self) -> Meta {
        Meta {
            id: "C35",
            level: "fault_enumeration",
            rule: "one evaluation = one execution of a real SDK operation (sign, sidecar sign, read, sidecar read, add-ingredient, to_archive, with_archive, jumbf load/save) on a seeded tiny asset with all its streams replaced by SimStreams under one fault plan: A benign chunking (1..n byte reads/writes, 1-byte first read), B sticky hard error from stream call k on, C one-shot hard error at call k, E one-shot EINTR at call k, D ENOSPC after n written bytes; k ranges over every call index of the fault-free control (stratified sample of at most `sites` per config in quick). Non-trivial = the fault actually fired inside the operation (or, for A, the chunking changed the number of stream calls); distinct = distinct (op, format, binding, config, k, op kind, progress phase)",
            assumptions: &[
                "OS randomness (uuids, salts) only affects byte content of signed artefacts; artefacts are pinned in replay files",
                "an error on a trailing seek that leaves the outcome identical to the control is counted as a probe, not a violation",
                "one-shot oracle (C/E) is deliberately weaker than the statement: Err or identical-to-control",
            ],
            real: &["c2pa SDK (all of it)", "OpenSSL/Ed25519 fixture signer", "asset handlers for 11 formats"],
            stubbed: &["caller streams (SimStream in place of File/Cursor)"],
            crash_prop: "C35",
        }
    }

    fn runs(&self, tier: Tier) -> u64 {
        let n = scenarios().len() as u64;
        match tier {
            Tier::Quick => n,
            Tier::Thorough => n * 4,
        }
    }

    fn exhaustive(&self, tier: Tier) -> bool {
        tier == Tier::Thorough
    }

    fn run(&self, rc: &mut RunCtx) -> RunOut {
        let mut out = RunOut::default();
        let scs = scenarios();
        let (op, fmt, binding) = scs[(rc.idx % scs.len() as u64) as usize];
        let max_sites = match rc.tier {
            Tier::Quick => 400,
            Tier::Thorough => 100_000,
        };
        let (sc, ctx, vctx) = match build_scenario(rc, op, fmt, binding) {
            Ok(x) => x,
            Err(e) => {
                out.harness_error = Some(format!("prepare {}/{}: {e}", op.name(), fmt.name()));
                return out;
            }
        };
        let tag = format!("{}:{}:{:?}", op.name(), fmt.name(), binding);
        // control
        let (ctl, cworld) = eval(&sc, &ctx, &vctx, FaultPlan::default(), None, true);
        let n = ctl.st.ops;
        out.evals += 1;
        out.steps += n;
        if ctl.outcome.is_err()
            || ctl.outcome.state().map(|s| s != "Trusted" && s != "Valid").unwrap_or(false)
        {
            out.harness_error = Some(format!("control {tag}: {}", ctl.outcome.brief()));
            return out;
        }
        let (log, marks) = {
            let w = cworld.lock().unwrap();
            (w.log.clone(), w.write_marks.clone())
        };
        out.sample = Some(json!({
            "scenario": tag, "control_stream_calls": n, "control": ctl.outcome.brief(),
            "bytes_read": ctl.st.bytes_read, "bytes_written": ctl.st.bytes_written,
        }));
        let step_cap = n * 20 + 2000;

        let mut check_steps = |out: &mut RunOut, sub: u64, st: &stream::WorldStats, what: &str| {
            if st.ops > step_cap.max(200_000) {
                out.violate(sub, &format!("steps:{tag}:{what}"), "G3 bounded steps",
                    json!({"ops": st.ops, "control_ops": n}));
            }
        };

        // ---- A: benign chunking
        let mut sub = 0u64;
        let chunkings: Vec<(usize, usize)> = vec![(1, 0), (2, 1), (3, 0), (7, 1), (64, 0), (1 + rc.rng.below(32) as usize, 0)];
        for (mc, fr) in chunkings {
            let s = sub;
            sub += 1;
            let r = rc.rng.fork("chunk"); // drawn whether or not this sub runs (replay)
            if !rc.want_sub(s) {
                continue;
            }
            rc.mark(s);
            let plan = FaultPlan { max_chunk: mc, first_read_len: fr, ..Default::default() };
            let (e, _) = eval(&sc, &ctx, &vctx, plan, Some(r), false);
            out.evals += 1;
            out.steps += e.st.ops;
            out.fault("benign_chunking");
            if e.st.ops != n {
                out.keys.push(hash_str(&format!("{tag}|A|{mc}|{fr}")));
            }
            check_steps(&mut out, s, &e.st, "A");
            if e.outcome != ctl.outcome {
                out.violate(s, &format!("chunking-changes-result:{}:{:?}", fmt.name(), binding),
                    "C35-A identical under benign chunking",
                    json!({"scenario": tag, "max_chunk": mc, "first_read_len": fr,
                           "control": ctl.outcome.brief(), "observed": e.outcome.brief()}));
            }
        }

        // ---- B / C / E: failing at call k
        // call-site capture (a backtrace) is slow: one capture per (call kind, phase) per run
        let mut site_cache: std::collections::BTreeMap<String, String> = Default::default();
        let sites = pick_sites(n, max_sites, &mut rc.rng);
        if std::env::var_os("VERIF_DEBUG").is_some() {
            eprintln!("n={n} sites={sites:?} draws={}", rc.rng.draws);
        }
        for (cfg, cfg_id) in [("B", 1u64), ("C", 2), ("E", 3)] {
            for &k in &sites {
                let s = cfg_id * 1_000_000 + k;
                if !rc.want_sub(s) {
                    continue;
                }
                rc.mark(s);
                let plan = FaultPlan {
                    fail_at: Some(k),
                    sticky: cfg == "B",
                    interrupted: cfg == "E",
                    ..Default::default()
                };
                let (e, _) = eval(&sc, &ctx, &vctx, plan.clone(), None, false);
                out.evals += 1;
                out.steps += e.st.ops;
                let Some((fk, kind, sid, phase)) = e.st.fired.clone() else {
                    out.probe("fault_not_reached");
                    continue;
                };
                let _ = fk;
                out.fault(match cfg { "B" => "sticky_io_error", "C" => "oneshot_io_error", _ => "oneshot_eintr" });
                out.probe(&format!("fired_in_phase:{}", if phase.is_empty() { "none" } else { &phase }));
                out.keys.push(hash_str(&format!("{tag}|{cfg}|{k}|{}|{phase}", kind.name())));
                check_steps(&mut out, s, &e.st, cfg);
                let ck = format!("{}|{}", kind.name(), phase);
                let mut site_fn = |sc: &Scenario| {
                    site_cache
                        .entry(ck.clone())
                        .or_insert_with(|| site_of(sc, &ctx, &vctx, plan.clone()))
                        .clone()
                };
                let detail = json!({"scenario": tag, "config": cfg, "call_index": k, "of": n,
                    "failed_call": kind.name(), "stream": sid, "phase": phase,
                    "control": ctl.outcome.brief(), "observed": e.outcome.brief(),
                    "control_call_kind": log.get(k as usize).map(|l| l.0.name())});
                match cfg {
                    "B" => {
                        if !e.outcome.is_err() {
                            let trailing = e.st.sticky_hits == 0 && kind == OpKind::Seek && e.outcome == ctl.outcome;
                            if trailing {
                                out.probe("trailing_seek_error_dropped");
                            } else {
                                out.violate(s, &format!("io-error-swallowed@{}", site_fn(&sc)),
                                    "C35-B dead disk => Err", detail);
                            }
                        }
                    }
                    _ => {
                        if e.outcome.is_err() {
                            out.probe("oneshot_err");
                        } else if e.outcome == ctl.outcome {
                            out.probe("oneshot_retried_identical");
                        } else {
                            out.violate(s, &format!("io-error-swallowed@{}", site_fn(&sc)),
                                "C35-C one-shot error => Err or identical to control", detail);
                        }
                    }
                }
            }
        }

        // ---- D: full disk at every write boundary
        if !marks.is_empty() {
            let mut bounds: Vec<u64> = vec![0];
            bounds.extend(marks.iter().copied());
            bounds.pop(); // the last mark is the total: a disk of exactly that size is big enough
            bounds.sort();
            bounds.dedup();
            let idxs = pick_sites(bounds.len() as u64, max_sites, &mut rc.rng);
            for i in idxs {
                let cap = bounds[i as usize];
                let s = 4_000_000 + i;
                if !rc.want_sub(s) {
                    continue;
                }
                rc.mark(s);
                let plan = FaultPlan { enospc_after: Some(cap), ..Default::default() };
                let (e, _) = eval(&sc, &ctx, &vctx, plan.clone(), None, false);
                out.evals += 1;
                out.steps += e.st.ops;
                let Some((_, kind, sid, phase)) = e.st.fired.clone() else {
                    out.probe("fault_not_reached");
                    continue;
                };
                out.fault("enospc");
                out.keys.push(hash_str(&format!("{tag}|D|{cap}|{phase}")));
                check_steps(&mut out, s, &e.st, "D");
                if !e.outcome.is_err() {
                    let _ = kind;
                    let site = site_of(&sc, &ctx, &vctx, plan.clone());
                    out.violate(s, &format!("io-error-swallowed@{site}"), "C35-D full disk => Err",
                        json!({"scenario": tag, "config": "D", "disk_bytes": cap, "stream": sid, "phase": phase,
                               "control": ctl.outcome.brief(), "observed": e.outcome.brief()}));
                }
            }
        }
        out.digest = hash_str(&format!("{tag}|{n}|{}", out.evals));
        out
    }
}
