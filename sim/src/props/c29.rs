//! C29 — resource files are confined to the manifest directory.
//! Operation histories on a seeded directory tree with symlinks; adversary retargets links
//! between operations (a history event, not a race).

use std::{
    collections::BTreeMap,
    path::{Path, PathBuf},
};

use c2pa::ResourceStore;
use serde_json::json;

use crate::{
    harness::{Meta, Property, RunCtx, RunOut, Tier},
    rng::{hash_str, Rng},
    sdk,
};

pub struct C29;

fn snapshot(dir: &Path) -> BTreeMap<String, String> {
    let mut m = BTreeMap::new();
    fn walk(base: &Path, p: &Path, m: &mut BTreeMap<String, String>) {
        let Ok(rd) = std::fs::read_dir(p) else { return };
        for e in rd.flatten() {
            let path = e.path();
            let rel = path.strip_prefix(base).unwrap_or(&path).to_string_lossy().to_string();
            let Ok(md) = std::fs::symlink_metadata(&path) else { continue };
            if md.file_type().is_symlink() {
                m.insert(rel, format!("link->{}", std::fs::read_link(&path).map(|t| t.to_string_lossy().to_string()).unwrap_or_default()));
            } else if md.is_dir() {
                m.insert(rel.clone(), "dir".into());
                walk(base, &path, m);
            } else {
                let d = std::fs::read(&path).unwrap_or_default();
                m.insert(rel, format!("file:{:016x}:{}", crate::rng::hash_bytes(&d), d.len()));
            }
        }
    }
    walk(dir, dir, &mut m);
    m
}

#[derive(Clone, Debug)]
enum Op {
    Add(String),
    Get(String),
    Exists(String),
    WriteStream(String),
    PathForId(String),
    BuilderAddResource(String),
    Retarget { link: String, target: String },
}

const SENTINEL: &str = "SENTINEL-OUTSIDE-";

impl Property for C29 {
    fn meta(&self) -> Meta {
        Meta {
            id: "C29",
            level: "exploration",
            rule: "one evaluation = one operation of a seeded history (3-10 operations from ResourceStore add / get / exists / write_stream / path_for_id with set_base_path(root), Builder::add_resource with a base path, and an adversary step that retargets a symlink) on a seeded directory tree under a private work directory: root/ (files, directories, symlinks to files and directories - inside->inside, inside->outside, chained, dangling, absolute and relative) and outside/ with sentinel files carrying unique markers. Identifiers come from a traversal grammar (.. runs, absolute paths, backslashes, %2e%2e%2f, . segments, names of the links in the tree, nested paths through links). Oracle after every operation: the recursive snapshot of everything outside root is unchanged (write containment), no returned byte string contains a sentinel marker (read containment), exists(id) is false and path_for_id(id) is None whenever the real location of root/id - resolved by the simulator with std::fs::canonicalize - is outside root (existence leak). Non-trivial = identifier touches a link or a traversal form; distinct = (tree, history)",
            assumptions: &["the adversary acts between operations, never during one (no TOCTOU races)", "Reader::to_folder and archive entry names are not in this workload"],
            real: &["ResourceStore (add/get/exists/write_stream/path_for_id, resolve_within_root, sanitize_archive_path), Builder::add_resource"],
            stubbed: &["none: a real directory tree under /verif/work"],
            crash_prop: "C10",
        }
    }

    fn runs(&self, tier: Tier) -> u64 {
        match tier {
            Tier::Quick => 16 * 200,
            Tier::Thorough => 16 * 20_000,
        }
    }

    fn supports_mask(&self) -> bool {
        true
    }

    fn run(&self, rc: &mut RunCtx) -> RunOut {
        let mut out = RunOut::default();
        let mut r = rc.rng.fork("w");
        let work: PathBuf = crate::harness::verif_dir().join("work").join(format!("c29-{}-{}-{}", rc.tier.name(), rc.seed, rc.idx));
        let _ = std::fs::remove_dir_all(&work);
        let root = work.join("root");
        let outside = work.join("outside");
        let mk = |p: &Path| std::fs::create_dir_all(p);
        if mk(&root).is_err() || mk(&outside).is_err() || mk(&root.join("sub")).is_err() || mk(&outside.join("deep")).is_err() {
            out.harness_error = Some("cannot create work dir".into());
            return out;
        }
        let _ = std::fs::write(outside.join("secret.txt"), format!("{SENTINEL}secret-{}", rc.idx));
        let _ = std::fs::write(outside.join("deep").join("key.pem"), format!("{SENTINEL}key-{}", rc.idx));
        let _ = std::fs::write(root.join("ok.txt"), b"inside-ok");
        let _ = std::fs::write(root.join("sub").join("thumb.jpg"), b"inside-thumb");
        // seeded links
        let link_names = ["l_file_in", "l_dir_in", "l_file_out", "l_dir_out", "l_chain", "l_dangling", "l_abs_out", "sub/l_up_out"];
        let targets: Vec<(String, String)> = vec![
            ("l_file_in".into(), "ok.txt".into()),
            ("l_dir_in".into(), "sub".into()),
            ("l_file_out".into(), "../outside/secret.txt".into()),
            ("l_dir_out".into(), "../outside".into()),
            ("l_chain".into(), "l_dir_out".into()),
            ("l_dangling".into(), "../outside/not-there".into()),
            ("l_abs_out".into(), outside.join("deep").to_string_lossy().to_string()),
            ("sub/l_up_out".into(), "../../outside/deep".into()),
        ];
        for (l, t) in &targets {
            if r.chance(3, 4) {
                let _ = std::os::unix::fs::symlink(t, root.join(l));
            }
        }
        let ids = |r: &mut Rng| -> String {
            let base = *r.pick(&["ok.txt", "sub/thumb.jpg", "new.bin", "secret.txt", "key.pem", "evil.txt", "not-there", "deep/key.pem"]);
            let l = *r.pick(&link_names);
            match r.below(14) {
                0 => base.to_string(),
                1 => format!("../outside/{base}"),
                2 => format!("../../{base}"),
                3 => format!("{l}"),
                4 => format!("{l}/{base}"),
                5 => format!("{l}/../{base}"),
                6 => format!("sub/../{l}/{base}"),
                7 => outside.join(base).to_string_lossy().to_string(),
                8 => format!("..\\outside\\{base}"),
                9 => format!("%2e%2e%2foutside/{base}"),
                10 => format!("./{l}/./{base}"),
                11 => format!("sub/l_up_out/{base}"),
                12 => format!("l_chain/deep/{base}"),
                _ => format!("{l}/deep/../{base}"),
            }
        };
        let n_ops = r.usize(3, 10);
        let mut ops: Vec<Op> = Vec::new();
        for _ in 0..n_ops {
            let id = ids(&mut r);
            let t = r.pick(&targets).1.clone();
            let l = r.pick(&link_names).to_string();
            ops.push(match r.below(13) {
                0..=2 => Op::Add(id),
                3..=4 => Op::Get(id),
                5..=6 => Op::Exists(id),
                7 => Op::WriteStream(id),
                8..=9 => Op::PathForId(id),
                10 => Op::BuilderAddResource(id),
                _ => Op::Retarget { link: l, target: t },
            });
        }
        out.n_ops = ops.len();
        let mask = rc.mask.clone().unwrap_or_else(|| vec![true; ops.len()]);
        let before = snapshot(&outside);
        let canon_root = std::fs::canonicalize(&root).unwrap_or(root.clone());
        let mut store = ResourceStore::new();
        store.set_base_path(&root);
        let mut trace: Vec<String> = Vec::new();
        let real_outside = |id: &str| -> Option<bool> {
            // where does root/id really live? None if it does not exist / cannot be resolved
            if Path::new(id).is_absolute() {
                return std::fs::canonicalize(id).ok().map(|p| !p.starts_with(&canon_root));
            }
            std::fs::canonicalize(root.join(id)).ok().map(|p| !p.starts_with(&canon_root))
        };
        for (i, op) in ops.iter().enumerate() {
            if !mask[i] {
                continue;
            }
            let sub = i as u64;
            out.evals += 1;
            trace.push(format!("{op:?}"));
            let nontrivial = match op {
                Op::Retarget { .. } => true,
                Op::Add(id) | Op::Get(id) | Op::Exists(id) | Op::WriteStream(id) | Op::PathForId(id) | Op::BuilderAddResource(id) => id.contains("l_") || id.contains("..") || id.starts_with('/') || id.contains('%') || id.contains('\\'),
            };
            if nontrivial {
                out.keys.push(hash_str(&format!("{}|{trace:?}", rc.idx)));
            }
            let mut returned: Vec<u8> = Vec::new();
            let res = sdk::guarded(|| match op {
                Op::Add(id) => {
                    let _ = store.add(id.clone(), b"payload-from-sdk".to_vec());
                }
                Op::Get(id) => {
                    if let Ok(v) = store.get(id) {
                        returned = v.into_owned();
                    }
                }
                Op::Exists(id) => {
                    let e = store.exists(id);
                    if e && real_outside(id) == Some(true) {
                        returned = b"EXISTS-LEAK".to_vec();
                    }
                }
                Op::WriteStream(id) => {
                    let mut c = std::io::Cursor::new(Vec::new());
                    if store.write_stream(id, &mut c).is_ok() {
                        returned = c.into_inner();
                    }
                }
                Op::PathForId(id) => {
                    if store.path_for_id(id).is_some() && real_outside(id) == Some(true) {
                        returned = b"PATH-LEAK".to_vec();
                    }
                }
                Op::BuilderAddResource(id) => {
                    let mut b = c2pa::Builder::from_shared_context(&std::sync::Arc::new(sdk::make_context(&json!({}))));
                    b.set_base_path(&root);
                    let _ = b.add_resource(id, std::io::Cursor::new(b"payload-from-builder".to_vec()));
                }
                Op::Retarget { link, target } => {
                    let p = root.join(link);
                    if std::fs::symlink_metadata(&p).map(|m| m.file_type().is_symlink()).unwrap_or(false) {
                        let _ = std::fs::remove_file(&p);
                        let _ = std::os::unix::fs::symlink(target, &p);
                    }
                }
            });
            if let Err(p) = res {
                out.violate(sub, &format!("panic:{}", p.split('|').next().unwrap_or("?")), "G1 no panic", json!({"history": trace, "panic": p}));
                break;
            }
            let opn = match op {
                Op::Add(_) => "add",
                Op::Get(_) => "get",
                Op::Exists(_) => "exists",
                Op::WriteStream(_) => "write_stream",
                Op::PathForId(_) => "path_for_id",
                Op::BuilderAddResource(_) => "builder_add_resource",
                Op::Retarget { .. } => "retarget",
            };
            if returned == b"EXISTS-LEAK" {
                out.violate(sub, "existence-leak:exists", "C29 never reveals the existence of a file outside the manifest root", json!({"history": trace}));
            } else if returned == b"PATH-LEAK" {
                out.violate(sub, "existence-leak:path_for_id", "C29 never reveals the existence of a file outside the manifest root", json!({"history": trace}));
            } else if crate::jumbf::find_sub(&returned, SENTINEL.as_bytes()).is_some() {
                out.violate(sub, &format!("read-outside-root:{opn}"), "C29 never reads a file whose real location is outside the manifest root",
                    json!({"history": trace, "returned": String::from_utf8_lossy(&returned)}));
            }
            if !matches!(op, Op::Retarget { .. }) {
                let after = snapshot(&outside);
                if after != before {
                    let changed: Vec<String> = after.iter().filter(|(k, v)| before.get(*k) != Some(v)).map(|(k, v)| format!("{k}: {v}")).chain(before.keys().filter(|k| !after.contains_key(*k)).map(|k| format!("{k}: removed"))).collect();
                    out.violate(sub, &format!("write-outside-root:{opn}"), "C29 never writes a file whose real location is outside the manifest root",
                        json!({"history": trace, "changed_outside": changed}));
                    break;
                }
            }
            out.fault(if matches!(op, Op::Retarget { .. }) { "symlink_retargeted" } else { "fs_operation" });
        }
        out.sample = Some(json!({"history": trace, "links": snapshot(&root).into_iter().filter(|(_, v)| v.starts_with("link")).collect::<Vec<_>>()}));
        out.digest = hash_str(&format!("{trace:?}"));
        let _ = std::fs::remove_dir_all(&work);
        out
    }
}
