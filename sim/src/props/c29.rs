//! C29 — resource files are confined to the manifest directory.
//! Operation histories on a seeded directory tree with symlinks; adversary retargets links
//! between operations (a history event, not a race).

use std::{
    collections::BTreeMap,
    path::{Path, PathBuf},
};

use c2pa::ResourceStore;
use serde_json::json;

use crate::{
    harness::{Meta, Property, RunCtx, RunOut, Tier},
    rng::{hash_str, Rng},
    sdk,
};

pub struct C29;

fn snapshot(dir: &Path) -> BTreeMap<String, String> {
    let mut m = BTreeMap::new();
    fn walk(base: &Path, p: &Path, m: &mut BTreeMap<String, String>) {
        let Ok(rd) = std::fs::read_dir(p) else { return };
        for e in rd.flatten() {
            let path = e.path();
            let rel = path.strip_prefix(base).unwrap_or(&path).to_string_lossy().to_string();
            let Ok(md) = std::fs::symlink_metadata(&path) else { continue };
            if md.file_type().is_symlink() {
                m.insert(rel, format!("link->{}", std::fs::read_link(&path).map(|t| t.to_string_lossy().to_string()).unwrap_or_default()));
            } else if md.is_dir() {
                m.insert(rel.clone(), "dir".into());
                walk(base, &path, m);
            } else {
                let d = std::fs::read(&path).unwrap_or_default();
                m.insert(rel, format!("file:{:016x}:{}", crate::rng::hash_bytes(&d), d.len()));
            }
        }
    }
    walk(dir, dir, &mut m);
    m
}

#[derive(Clone, Debug)]
enum Op {
    Add(String),
    Get(String),
    Exists(String),
    WriteStream(String),
    PathForId(String),
    BuilderAddResource(String),
    Retarget { link: String, target: String },
    /// Reader::to_folder of a signed asset whose manifest / assertion label was replaced by a
    /// hostile string of the same length (kind 0 = untouched); `plant` = a symlink waiting in
    /// the export folder under the name the manifest label maps to
    ToFolder { kind: u64, plant: bool },
    /// Builder::with_archive of a ZIP archive whose manifest.json carries a base_path and whose
    /// resource entries are named by traversal identifiers
    ArchiveImport { id: String, base: u64 },
    /// sign with base path = root and a definition whose thumbnail identifier is `id`
    SignRef { id: String, ingredient: bool },
}

/// ZIP with stored (uncompressed) entries
fn zip_stored(entries: &[(String, Vec<u8>)]) -> Vec<u8> {
    let mut out = Vec::new();
    let mut central = Vec::new();
    for (name, data) in entries {
        let off = out.len() as u32;
        let crc = crate::assets::crc32(data);
        let mut h = Vec::new();
        h.extend_from_slice(&[0x50, 0x4b, 0x03, 0x04, 20, 0, 0, 0, 0, 0, 0, 0, 0x21, 0]);
        h.extend_from_slice(&crc.to_le_bytes());
        h.extend_from_slice(&(data.len() as u32).to_le_bytes());
        h.extend_from_slice(&(data.len() as u32).to_le_bytes());
        h.extend_from_slice(&(name.len() as u16).to_le_bytes());
        h.extend_from_slice(&[0, 0]);
        h.extend_from_slice(name.as_bytes());
        out.extend_from_slice(&h);
        out.extend_from_slice(data);
        central.extend_from_slice(&[0x50, 0x4b, 0x01, 0x02, 20, 0, 20, 0, 0, 0, 0, 0, 0, 0, 0x21, 0]);
        central.extend_from_slice(&crc.to_le_bytes());
        central.extend_from_slice(&(data.len() as u32).to_le_bytes());
        central.extend_from_slice(&(data.len() as u32).to_le_bytes());
        central.extend_from_slice(&(name.len() as u16).to_le_bytes());
        central.extend_from_slice(&[0, 0, 0, 0, 0, 0, 0, 0, 0, 0, 0, 0]);
        central.extend_from_slice(&off.to_le_bytes());
        central.extend_from_slice(name.as_bytes());
    }
    let cd_off = out.len() as u32;
    out.extend_from_slice(&central);
    out.extend_from_slice(&[0x50, 0x4b, 0x05, 0x06, 0, 0, 0, 0]);
    out.extend_from_slice(&(entries.len() as u16).to_le_bytes());
    out.extend_from_slice(&(entries.len() as u16).to_le_bytes());
    out.extend_from_slice(&(central.len() as u32).to_le_bytes());
    out.extend_from_slice(&cd_off.to_le_bytes());
    out.extend_from_slice(&[0, 0]);
    out
}

fn replace_all(hay: &[u8], from: &[u8], to: &[u8]) -> Vec<u8> {
    let mut o = Vec::with_capacity(hay.len());
    let mut i = 0;
    while i < hay.len() {
        if hay[i..].starts_with(from) {
            o.extend_from_slice(to);
            i += from.len();
        } else {
            o.push(hay[i]);
            i += 1;
        }
    }
    o
}

fn jbox(typ: &[u8; 4], payload: &[u8]) -> Vec<u8> {
    let mut v = ((payload.len() + 8) as u32).to_be_bytes().to_vec();
    v.extend_from_slice(typ);
    v.extend_from_slice(payload);
    v
}

fn jumd(uuid_hex: &str, label: &str) -> Vec<u8> {
    let mut p = hex::decode(uuid_hex).unwrap_or_default();
    p.push(0x03);
    p.extend_from_slice(label.as_bytes());
    p.push(0);
    jbox(b"jumd", &p)
}

/// `store` with a data-box store holding one data box labelled `label` appended to its last manifest
fn add_databox(store: &[u8], label: &str) -> Option<Vec<u8>> {
    let top = crate::jumbf::parse(store);
    let m = top.first()?.children.iter().filter(|c| &c.typ == b"jumb").last()?;
    let last = m.children.last()?;
    let mut cbor = vec![0xA2, 0x69];
    cbor.extend_from_slice(b"dc:format");
    cbor.push(0x6A);
    cbor.extend_from_slice(b"text/plain");
    cbor.push(0x64);
    cbor.extend_from_slice(b"data");
    cbor.push(0x45);
    cbor.extend_from_slice(b"pwned");
    let mut db = jumd("63626F7200110010800000AA00389B71", label);
    db.extend_from_slice(&jbox(b"cbor", &cbor));
    let mut dbs = jumd("6332646200110010800000AA00389B71", "c2pa.databoxes");
    dbs.extend_from_slice(&jbox(b"jumb", &db));
    let add = jbox(b"jumb", &dbs);
    crate::jumbf::splice(store, last.end, 0, &add, (last.start, last.end))
}

/// a JPEG signed with an in-memory thumbnail (a binary assertion for to_folder to export)
fn signed_with_thumbnail() -> Vec<u8> {
    let ctx = std::sync::Arc::new(sdk::make_context(&json!({})));
    c2pa::verif::set_random_seed(Some(0xC29));
    let asset = crate::assets::generate(crate::assets::Fmt::Jpeg, &mut Rng::new(0xC29));
    let mut def = sdk::simple_definition("c29");
    def["thumbnail"] = json!({"format": "image/jpeg", "identifier": "t.jpg"});
    let Ok(mut b) = c2pa::Builder::from_shared_context(&ctx).with_definition(def) else { return Vec::new() };
    if b.add_resource("t.jpg", std::io::Cursor::new(asset.clone())).is_err() {
        return Vec::new();
    }
    let signer = sdk::make_signer("ed25519");
    let mut d = std::io::Cursor::new(Vec::new());
    match b.sign(signer.as_ref(), "image/jpeg", &mut std::io::Cursor::new(asset), &mut d) {
        Ok(_) => d.into_inner(),
        Err(_) => Vec::new(),
    }
}

const SENTINEL: &str = "SENTINEL-OUTSIDE-";

impl Property for C29 {
    fn meta(&self) -> Meta {
        Meta {
            id: "C29",
            level: "exploration",
            rule: "one evaluation = one operation of a seeded history (3-10 operations from ResourceStore add / get / exists / write_stream / path_for_id with set_base_path(root), Builder::add_resource with a base path, Reader::to_folder into root/export<i>, Builder::with_archive of a ZIP archive with traversal entry names and a base_path in its manifest.json followed by a sign, a sign whose definition names its (ingredient) thumbnail by a traversal identifier with the base path set, and an adversary step that retargets a symlink) on a seeded directory tree under a private work directory: root/ (files, directories, symlinks to files and directories - inside->inside, inside->outside, chained, dangling, absolute and relative) and outside/ with sentinel files carrying unique markers. Identifiers come from a traversal grammar (.. runs, absolute paths, backslashes, %2e%2e%2f, . segments, names of the links in the tree, nested paths through links). Oracle after every operation: the recursive snapshot of everything outside root is unchanged (write containment), no returned byte string contains a sentinel marker (read containment), exists(id) is false and path_for_id(id) is None whenever the real location of root/id - resolved by the simulator with std::fs::canonicalize - is outside root (existence leak); an export changes nothing in root outside its own folder; no signed manifest contains a sentinel marker. Non-trivial = identifier touches a link or a traversal form; distinct = (tree, history)",
            assumptions: &["the adversary acts between operations, never during one (no TOCTOU races)", "Reader::to_folder is driven with forged data-box labels (the only label kind the exporter maps to a path without resolving it first) and with a link planted in the export folder; archive import uses hand-built ZIP archives (stored entries) whose manifest.json carries a base_path"],
            real: &["ResourceStore (add/get/exists/write_stream/path_for_id, resolve_within_root, sanitize_archive_path), Builder::add_resource"],
            stubbed: &["none: a real directory tree under /verif/work"],
            crash_prop: "C10",
        }
    }

    fn runs(&self, tier: Tier) -> u64 {
        match tier {
            Tier::Quick => 16 * 1000,
            Tier::Thorough => 16 * 20_000,
        }
    }

    fn supports_mask(&self) -> bool {
        true
    }

    fn run(&self, rc: &mut RunCtx) -> RunOut {
        let mut out = RunOut::default();
        let mut r = rc.rng.fork("w");
        let work: PathBuf = crate::harness::verif_dir().join("work").join(format!("c29-{}-{}-{}", rc.tier.name(), rc.seed, rc.idx));
        let _ = std::fs::remove_dir_all(&work);
        let root = work.join("root");
        let outside = work.join("outside");
        let mk = |p: &Path| std::fs::create_dir_all(p);
        if mk(&root).is_err() || mk(&outside).is_err() || mk(&root.join("sub")).is_err() || mk(&outside.join("deep")).is_err() {
            out.harness_error = Some("cannot create work dir".into());
            return out;
        }
        let _ = std::fs::write(outside.join("secret.txt"), format!("{SENTINEL}secret-{}", rc.idx));
        let _ = std::fs::write(outside.join("deep").join("key.pem"), format!("{SENTINEL}key-{}", rc.idx));
        let _ = std::fs::write(root.join("ok.txt"), b"inside-ok");
        let _ = std::fs::write(root.join("sub").join("thumb.jpg"), b"inside-thumb");
        // seeded links
        let link_names = ["l_file_in", "l_dir_in", "l_file_out", "l_dir_out", "l_chain", "l_dangling", "l_abs_out", "sub/l_up_out"];
        let targets: Vec<(String, String)> = vec![
            ("l_file_in".into(), "ok.txt".into()),
            ("l_dir_in".into(), "sub".into()),
            ("l_file_out".into(), "../outside/secret.txt".into()),
            ("l_dir_out".into(), "../outside".into()),
            ("l_chain".into(), "l_dir_out".into()),
            ("l_dangling".into(), "../outside/not-there".into()),
            ("l_abs_out".into(), outside.join("deep").to_string_lossy().to_string()),
            ("sub/l_up_out".into(), "../../outside/deep".into()),
        ];
        for (l, t) in &targets {
            if r.chance(3, 4) {
                let _ = std::os::unix::fs::symlink(t, root.join(l));
            }
        }
        let ids = |r: &mut Rng| -> String {
            let base = *r.pick(&["ok.txt", "sub/thumb.jpg", "new.bin", "secret.txt", "key.pem", "evil.txt", "not-there", "deep/key.pem"]);
            let l = *r.pick(&link_names);
            match r.below(14) {
                0 => base.to_string(),
                1 => format!("../outside/{base}"),
                2 => format!("../../{base}"),
                3 => format!("{l}"),
                4 => format!("{l}/{base}"),
                5 => format!("{l}/../{base}"),
                6 => format!("sub/../{l}/{base}"),
                7 => outside.join(base).to_string_lossy().to_string(),
                8 => format!("..\\outside\\{base}"),
                9 => format!("%2e%2e%2foutside/{base}"),
                10 => format!("./{l}/./{base}"),
                11 => format!("sub/l_up_out/{base}"),
                12 => format!("l_chain/deep/{base}"),
                _ => format!("{l}/deep/../{base}"),
            }
        };
        let n_ops = r.usize(3, 10);
        let mut ops: Vec<Op> = Vec::new();
        for _ in 0..n_ops {
            let id = ids(&mut r);
            let t = r.pick(&targets).1.clone();
            let l = r.pick(&link_names).to_string();
            let (k2, flag) = (r.below(8), r.chance(1, 4));
            ops.push(match r.below(17) {
                0..=2 => Op::Add(id),
                3..=4 => Op::Get(id),
                5..=6 => Op::Exists(id),
                7 => Op::WriteStream(id),
                8..=9 => Op::PathForId(id),
                10 => Op::BuilderAddResource(id),
                11..=12 => Op::Retarget { link: l, target: t },
                13 => Op::ToFolder { kind: k2, plant: flag },
                14 => Op::ArchiveImport { id, base: k2 % 3 },
                _ => Op::SignRef { id, ingredient: flag },
            });
        }
        out.n_ops = ops.len();
        let mask = rc.mask.clone().unwrap_or_else(|| vec![true; ops.len()]);
        let thumb_signed = rc.artefact("thumb_signed", signed_with_thumbnail);
        let before = snapshot(&outside);
        let canon_root = std::fs::canonicalize(&root).unwrap_or(root.clone());
        let mut store = ResourceStore::new();
        store.set_base_path(&root);
        let mut trace: Vec<String> = Vec::new();
        let real_outside = |id: &str| -> Option<bool> {
            // where does root/id really live? None if it does not exist / cannot be resolved
            if Path::new(id).is_absolute() {
                return std::fs::canonicalize(id).ok().map(|p| !p.starts_with(&canon_root));
            }
            std::fs::canonicalize(root.join(id)).ok().map(|p| !p.starts_with(&canon_root))
        };
        for (i, op) in ops.iter().enumerate() {
            if !mask[i] {
                continue;
            }
            let sub = i as u64;
            out.evals += 1;
            trace.push(format!("{op:?}"));
            let nontrivial = match op {
                Op::Retarget { .. } => true,
                Op::ToFolder { kind, plant } => *kind > 0 || *plant,
                Op::Add(id) | Op::Get(id) | Op::Exists(id) | Op::WriteStream(id) | Op::PathForId(id) | Op::BuilderAddResource(id) | Op::ArchiveImport { id, .. } | Op::SignRef { id, .. } => id.contains("l_") || id.contains("..") || id.starts_with('/') || id.contains('%') || id.contains('\\'),
            };
            if nontrivial {
                out.keys.push(hash_str(&format!("{}|{trace:?}", rc.idx)));
            }
            let mut returned: Vec<u8> = Vec::new();
            let export_prefix = format!("export{i}");
            let root_before = if matches!(op, Op::ToFolder { .. }) { Some(snapshot(&root)) } else { None };
            let res = sdk::guarded(|| match op {
                Op::Add(id) => {
                    let _ = store.add(id.clone(), b"payload-from-sdk".to_vec());
                }
                Op::Get(id) => {
                    if let Ok(v) = store.get(id) {
                        returned = v.into_owned();
                    }
                }
                Op::Exists(id) => {
                    let e = store.exists(id);
                    if e && real_outside(id) == Some(true) {
                        returned = b"EXISTS-LEAK".to_vec();
                    }
                }
                Op::WriteStream(id) => {
                    let mut c = std::io::Cursor::new(Vec::new());
                    if store.write_stream(id, &mut c).is_ok() {
                        returned = c.into_inner();
                    }
                }
                Op::PathForId(id) => {
                    if store.path_for_id(id).is_some() && real_outside(id) == Some(true) {
                        returned = b"PATH-LEAK".to_vec();
                    }
                }
                Op::BuilderAddResource(id) => {
                    let mut b = c2pa::Builder::from_shared_context(&std::sync::Arc::new(sdk::make_context(&json!({}))));
                    b.set_base_path(&root);
                    let _ = b.add_resource(id, std::io::Cursor::new(b"payload-from-builder".to_vec()));
                }
                Op::ToFolder { kind, plant } => {
                    let dest = root.join(format!("export{i}"));
                    let ctx = std::sync::Arc::new(sdk::make_context(&json!({})));
                    let ml = c2pa::Reader::from_shared_context(&ctx)
                        .with_stream("image/jpeg", std::io::Cursor::new(thumb_signed.clone()))
                        .ok()
                        .and_then(|r| r.active_label().map(|s| s.to_string()))
                        .unwrap_or_default();
                    if ml.is_empty() {
                        returned = b"TOFOLDER-NO-LABEL".to_vec();
                        return;
                    }
                    let out_abs = format!("{}/pwned", outside.to_string_lossy());
                    let hostile: Option<String> = match kind {
                        0 => None,
                        1 => Some("../../../../outside/pwned".into()),
                        2 => Some("..//..//..//..//outside//pwned".into()),
                        3 => Some(out_abs),
                        4 => Some("x/../../../../../outside/pwned".into()),
                        5 => Some("../../../sub/pwned".into()),
                        6 => Some("./../.././../../outside/deep/pwned".into()),
                        _ => Some("../../../../outside/deep/key.pem".into()),
                    };
                    let (bytes, fmt) = match &hostile {
                        None => (thumb_signed.clone(), "image/jpeg"),
                        Some(h) => {
                            // the store on its own, with a data box named `h` added to the active manifest
                            let store = c2pa::jumbf_io::load_jumbf_from_memory("image/jpeg", &thumb_signed).unwrap_or_default();
                            match add_databox(&store, h) {
                                Some(s) => (s, "application/c2pa"),
                                None => {
                                    returned = b"TOFOLDER-NOT-BUILT".to_vec();
                                    return;
                                }
                            }
                        }
                    };
                    if *plant {
                        // a link waiting where the (sanitised) manifest label will be created
                        let _ = std::fs::create_dir_all(&dest);
                        let name = if *kind == 0 { ml.replace(':', "_") } else { "planted".to_string() };
                        let _ = std::os::unix::fs::symlink("../../outside/deep", dest.join(name));
                    }
                    match c2pa::Reader::from_shared_context(&ctx).with_stream(fmt, std::io::Cursor::new(bytes)) {
                        Err(e) => {
                            if std::env::var("VERIF_DEBUG").is_ok() {
                                eprintln!("to_folder kind {kind}: read error {}", format!("{e:?}").chars().take(200).collect::<String>());
                            }
                            returned = b"TOFOLDER-READ-ERR".to_vec()
                        }
                        Ok(rd) => {
                            returned = match rd.to_folder(&dest) {
                                Ok(()) => b"TOFOLDER-OK".to_vec(),
                                Err(_) => b"TOFOLDER-ERR".to_vec(),
                            }
                        }
                    }
                }
                Op::ArchiveImport { id, base } => {
                    let base_path = match base {
                        0 => root.to_string_lossy().to_string(),
                        1 => "/".to_string(),
                        _ => outside.to_string_lossy().to_string(),
                    };
                    let manifest = json!({
                        "title": "archived", "format": "image/jpeg",
                        "claim_generator_info": [{"name": "c2pasim", "version": "1"}],
                        "base_path": base_path,
                        "resources": {"base_path": base_path, "resources": {}},
                        "thumbnail": {"format": "text/plain", "identifier": id},
                    });
                    let z = zip_stored(&[
                        ("manifest.json".to_string(), manifest.to_string().into_bytes()),
                        (format!("resources/{id}"), b"payload-from-archive".to_vec()),
                    ]);
                    let ctx = std::sync::Arc::new(sdk::make_context(&json!({})));
                    if let Ok(mut b) = c2pa::Builder::from_shared_context(&ctx).with_archive(std::io::Cursor::new(z)) {
                        // what the imported builder would put into a manifest
                        let asset = crate::assets::generate(crate::assets::Fmt::Jpeg, &mut Rng::new(7));
                        b.set_no_embed(true);
                        let signer = sdk::make_signer("ed25519");
                        let mut d = std::io::Cursor::new(Vec::new());
                        if let Ok(m) = b.sign(signer.as_ref(), "image/jpeg", &mut std::io::Cursor::new(asset), &mut d) {
                            returned = m;
                        }
                    }
                }
                Op::SignRef { id, ingredient } => {
                    let ctx = std::sync::Arc::new(sdk::make_context(&json!({})));
                    let mut def = sdk::simple_definition("c29-ref");
                    let t = json!({"format": "text/plain", "identifier": id});
                    if *ingredient {
                        def["ingredients"] = json!([{"title": "i", "format": "image/jpeg", "relationship": "componentOf", "thumbnail": t}]);
                    } else {
                        def["thumbnail"] = t;
                    }
                    if let Ok(mut b) = c2pa::Builder::from_shared_context(&ctx).with_definition(def) {
                        b.set_base_path(&root);
                        b.set_no_embed(true);
                        let asset = crate::assets::generate(crate::assets::Fmt::Jpeg, &mut Rng::new(7));
                        let signer = sdk::make_signer("ed25519");
                        let mut d = std::io::Cursor::new(Vec::new());
                        if let Ok(m) = b.sign(signer.as_ref(), "image/jpeg", &mut std::io::Cursor::new(asset), &mut d) {
                            returned = m;
                        }
                    }
                }
                Op::Retarget { link, target } => {
                    let p = root.join(link);
                    if std::fs::symlink_metadata(&p).map(|m| m.file_type().is_symlink()).unwrap_or(false) {
                        let _ = std::fs::remove_file(&p);
                        let _ = std::os::unix::fs::symlink(target, &p);
                    }
                }
            });
            if let Err(p) = res {
                out.violate(sub, &format!("panic:{}", p.split('|').next().unwrap_or("?")), "G1 no panic", json!({"history": trace, "panic": p}));
                break;
            }
            let opn = match op {
                Op::Add(_) => "add",
                Op::Get(_) => "get",
                Op::Exists(_) => "exists",
                Op::WriteStream(_) => "write_stream",
                Op::PathForId(_) => "path_for_id",
                Op::BuilderAddResource(_) => "builder_add_resource",
                Op::Retarget { .. } => "retarget",
                Op::ToFolder { .. } => "to_folder",
                Op::ArchiveImport { .. } => "archive_import",
                Op::SignRef { .. } => "sign_with_resource_ref",
            };
            if returned.starts_with(b"TOFOLDER-") {
                out.probe(&String::from_utf8_lossy(&returned).to_lowercase());
            }
            if returned == b"EXISTS-LEAK" {
                out.violate(sub, "existence-leak:exists", "C29 never reveals the existence of a file outside the manifest root", json!({"history": trace}));
            } else if returned == b"PATH-LEAK" {
                out.violate(sub, "existence-leak:path_for_id", "C29 never reveals the existence of a file outside the manifest root", json!({"history": trace}));
            } else if crate::jumbf::find_sub(&returned, SENTINEL.as_bytes()).is_some() {
                out.violate(sub, &format!("read-outside-root:{opn}"), "C29 never reads a file whose real location is outside the manifest root",
                    json!({"history": trace, "returned": String::from_utf8_lossy(&returned)}));
            }
            if let Some(rb) = &root_before {
                // an export may only create things below its own folder
                let ra = snapshot(&root);
                let changed: Vec<String> = ra.iter().filter(|(k, v)| !k.starts_with(&export_prefix) && rb.get(*k) != Some(v)).map(|(k, v)| format!("{k}: {v}")).collect();
                if !changed.is_empty() {
                    out.violate(sub, "write-outside-export-folder:to_folder", "C29 never exports a file whose real location is outside the target folder",
                        json!({"history": trace, "changed_in_root_outside_export": changed}));
                    break;
                }
            }
            if !matches!(op, Op::Retarget { .. }) {
                let after = snapshot(&outside);
                if after != before {
                    let changed: Vec<String> = after.iter().filter(|(k, v)| before.get(*k) != Some(v)).map(|(k, v)| format!("{k}: {v}")).chain(before.keys().filter(|k| !after.contains_key(*k)).map(|k| format!("{k}: removed"))).collect();
                    out.violate(sub, &format!("write-outside-root:{opn}"), "C29 never writes a file whose real location is outside the manifest root",
                        json!({"history": trace, "changed_outside": changed}));
                    break;
                }
            }
            out.fault(if matches!(op, Op::Retarget { .. }) { "symlink_retargeted" } else { "fs_operation" });
        }
        out.sample = Some(json!({"history": trace, "links": snapshot(&root).into_iter().filter(|(_, v)| v.starts_with("link")).collect::<Vec<_>>()}));
        out.digest = hash_str(&format!("{trace:?}"));
        let _ = std::fs::remove_dir_all(&work);
        out
    }
}
