//! C12 — hash-binding layout maps are ordered, disjoint, in-file and covering, over whatever
//! bytes the disk holds (pristine, signed, and fault-mutated assets).

use std::sync::Arc;

use serde_json::json;

use crate::{
    assets::{self, Fmt},
    corrupt,
    harness::{Meta, Property, RunCtx, RunOut, Tier},
    rng::{hash_str, Rng},
    sdk,
};

pub struct C12;

const SHARDS: u64 = 4;

fn check_box_map(bytes: &[u8], fmt: Fmt) -> Result<Option<(usize, Option<&'static str>, String)>, String> {
    // Ok(None) = handler refused (Err) -> acceptable; Ok(Some((entries, violated clause, detail)))
    let r = sdk::guarded(|| c2pa::verif::box_map_from_stream(fmt.mime(), &mut std::io::Cursor::new(bytes.to_vec())))?;
    let Ok(Some(bm)) = r else { return Ok(None) };
    let len = bytes.len() as u64;
    let mut clause = None;
    let mut detail = String::new();
    let mut prev_end = 0u64;
    let mut prev_start = 0u64;
    for (i, (names, s, l, _)) in bm.iter().enumerate() {
        let e = s.saturating_add(*l);
        if e > len || *s > len {
            clause = Some("out-of-file");
            detail = format!("entry {i} {names:?} [{s},{e}) file {len}");
            break;
        }
        if i > 0 && *s < prev_start {
            clause = Some("unordered");
            detail = format!("entry {i} {names:?} starts at {s} before previous start {prev_start}");
            break;
        }
        if i > 0 && *l > 0 && *s < prev_end {
            clause = Some("overlap");
            detail = format!("entry {i} {names:?} [{s},{e}) overlaps previous ending at {prev_end}");
            break;
        }
        if *s > prev_end {
            clause = Some("gap");
            detail = format!("bytes [{prev_end},{s}) before entry {i} {names:?} are in no box");
            break;
        }
        prev_start = *s;
        prev_end = e.max(prev_end);
    }
    if clause.is_none() && prev_end < len {
        clause = Some("tail-uncovered");
        detail = format!("bytes [{prev_end},{len}) after the last box are in no box");
    }
    Ok(Some((bm.len(), clause, detail)))
}

fn check_locations(bytes: &[u8], fmt: Fmt) -> Result<Option<(Option<&'static str>, String)>, String> {
    let r = sdk::guarded(|| c2pa::verif::object_locations_from_stream(fmt.mime(), &mut std::io::Cursor::new(bytes.to_vec())))?;
    let Ok(locs) = r else { return Ok(None) };
    let len = bytes.len();
    for (o, l, k) in &locs {
        if o.checked_add(*l).map(|e| e > len).unwrap_or(true) {
            return Ok(Some((Some("out-of-file"), format!("region kind {k} [{o},+{l}) file {len}"))));
        }
    }
    for (o, l, k) in &locs {
        if *k != 0 || *l == 0 {
            continue;
        }
        for (o2, l2, k2) in &locs {
            if *k2 == 0 || *l2 == 0 {
                continue;
            }
            if *o < o2 + l2 && *o2 < o + l {
                return Ok(Some((Some("manifest-overlaps-other"), format!("Cai [{o},+{l}) overlaps kind {k2} [{o2},+{l2})"))));
            }
        }
    }
    Ok(Some((None, String::new())))
}

impl Property for C12 {
    fn meta(&self) -> Meta {
        Meta {
            id: "C12",
            level: "exploration",
            rule: "one evaluation = the SDK's box-map (AssetBoxHash::get_box_map) or object-location computation, through a hook accessor, on the bytes a simulated disk holds: seeded pristine tiny assets of the box-hash formats (JPEG incl. restart markers and extra APPn/COM, PNG incl. ancillary chunks, GIF incl. extension blocks, JPEG XL), their signed versions (data hash and box hash), and every single stored-byte fault of C01's list on them; object locations additionally for all 11 formats. Oracle whenever the call returns Ok: entries ordered, non-overlapping, inside the file, and their union (incl. the C2PA entry) equals the whole file; manifest region inside the file and disjoint from other regions. Non-trivial = call returned Ok; distinct = (format, variant, signed?, fault)",
            assumptions: &[
                "Err from the map computation is always acceptable",
                "partial claim: nothing is decided about well-formed inputs beyond the generated set",
            ],
            real: &["format handlers' get_box_map / get_object_locations_from_stream"],
            stubbed: &["storage (byte faults in memory)"],
            crash_prop: "C10",
        }
    }

    fn runs(&self, tier: Tier) -> u64 {
        // (format 11) x (variant) x (3 states) x shards
        let v = match tier {
            Tier::Quick => 6,
            Tier::Thorough => 300,
        };
        11 * v * 3 * SHARDS
    }

    fn run(&self, rc: &mut RunCtx) -> RunOut {
        let mut out = RunOut::default();
        let shard = rc.idx % SHARDS;
        let state = (rc.idx / SHARDS) % 3; // 0 pristine, 1 signed data, 2 signed box
        let fi = (rc.idx / (SHARDS * 3)) % 11;
        let variant = rc.idx / (SHARDS * 3 * 11);
        let fmt = assets::ALL[fi as usize];
        let has_box = sdk::fmt_supports_box(fmt);
        let mut ar = Rng::new(hash_str(&format!("{}-{}-{variant}-c12", rc.seed, fmt.name())));
        let asset = assets::generate(fmt, &mut ar);
        c2pa::verif::set_random_seed(Some(hash_str(&format!("c12-{}-{}-{variant}-{state}", rc.seed, fmt.name()))));
        let base = match state {
            0 => asset,
            1 | 2 => {
                if state == 2 && !has_box {
                    out.evals += 1;
                    return out;
                }
                let b = if state == 2 { sdk::Binding::Box } else { sdk::Binding::Default };
                let ctx = Arc::new(sdk::make_context(&sdk::binding_overlay(b)));
                match sdk::sign_plain(&ctx, &sdk::simple_definition("c12"), "ed25519", fmt.mime(), &asset) {
                    Ok(s) => s,
                    Err(e) => {
                        out.harness_error = Some(format!("sign {}: {e}", fmt.name()));
                        return out;
                    }
                }
            }
            _ => unreachable!(),
        };
        let base = rc.artefact("base", || base.clone());
        let st = ["pristine", "signed-data", "signed-box"][state as usize];
        let tag = format!("{}:{st}:v{variant}", fmt.name());
        let mut faults: Vec<Option<corrupt::Fault>> = vec![None];
        faults.extend(corrupt::enumerate(base.len()).into_iter().map(Some));
        let mut ok_maps = 0u64;
        let mut ok_locs = 0u64;
        for (i, f) in faults.iter().enumerate() {
            if i as u64 % SHARDS != shard && i != 0 {
                continue;
            }
            let sub = i as u64;
            if !rc.want_sub(sub) {
                continue;
            }
            rc.mark(sub);
            let bytes = match f {
                None => base.clone(),
                Some(f) => match f.apply(&base) {
                    Some(b) => b,
                    None => continue,
                },
            };
            let which = if f.is_none() { "unfaulted" } else { "faulted" };
            if let Some(f) = f {
                out.fault(f.kind());
            }
            if has_box {
                out.evals += 1;
                match check_box_map(&bytes, fmt) {
                    Err(p) => out.violate(sub, &format!("panic:{}", p.split('|').next().unwrap_or("?")), "G1 no panic",
                        json!({"scenario": tag, "fault": f.as_ref().map(|f| f.describe()), "panic": p})),
                    Ok(None) => out.probe("boxmap:err"),
                    Ok(Some((n, clause, detail))) => {
                        ok_maps += 1;
                        out.keys.push(hash_str(&format!("{tag}|bm|{i}")));
                        if let Some(c) = clause {
                            let class = match c {
                                "gap" | "tail-uncovered" => "boxmap-not-covering",
                                "overlap" | "unordered" => "boxmap-overlap-or-unordered",
                                _ => "boxmap-out-of-file",
                            };
                            let _ = which;
                            // classes are kept narrow so that a listed finding cannot hide a new
                            // one: an asset nobody damaged is a class of its own, and so is an
                            // overlap that does not involve a JPEG restart marker
                            let mut class = class.to_string();
                            if f.is_none() && class != "boxmap-overlap-or-unordered" {
                                class.push_str("-on-undamaged-asset");
                            }
                            if class == "boxmap-overlap-or-unordered" && !(fmt == Fmt::Jpeg && detail.contains("RST")) {
                                class.push_str(if f.is_none() { "-on-undamaged-asset" } else { "-other" });
                            }
                            out.violate(sub, &format!("{class}:{}", fmt.name()),
                                "C12 box list ordered, non-overlapping, within the file, covering every byte",
                                json!({"scenario": tag, "fault": f.as_ref().map(|f| f.describe()), "entries": n, "clause": c, "detail": detail, "file_len": bytes.len()}));
                        }
                    }
                }
            }
            // the locations of a file WITHOUT a manifest describe a hypothetical output file (where
            // the manifest would go), so the clause only applies when the SDK finds a manifest
            let has_manifest = state != 0
                && sdk::guarded(|| c2pa::jumbf_io::load_jumbf_from_memory(fmt.mime(), &bytes).is_ok()).unwrap_or(false);
            if !has_manifest {
                continue;
            }
            out.evals += 1;
            match check_locations(&bytes, fmt) {
                Err(p) => out.violate(sub, &format!("panic:{}", p.split('|').next().unwrap_or("?")), "G1 no panic",
                    json!({"scenario": tag, "fault": f.as_ref().map(|f| f.describe()), "panic": p})),
                Ok(None) => out.probe("locations:err"),
                Ok(Some((clause, detail))) => {
                    ok_locs += 1;
                    out.keys.push(hash_str(&format!("{tag}|loc|{i}")));
                    if let Some(c) = clause {
                        out.violate(sub, &format!("locations:{}:{c}{}", fmt.name(), if f.is_none() { ":on-undamaged-asset" } else { "" }),
                            "C12 manifest region within the file and disjoint from non-manifest regions",
                            json!({"scenario": tag, "fault": f.as_ref().map(|f| f.describe()), "detail": detail, "file_len": bytes.len()}));
                    }
                }
            }
        }
        out.probe_n("boxmap:ok", ok_maps);
        out.probe_n("locations:ok", ok_locs);
        if shard == 0 {
            out.sample = Some(json!({"scenario": tag, "len": base.len(), "faults": faults.len(), "boxmaps_ok": ok_maps, "locations_ok": ok_locs}));
        }
        out.digest = hash_str(&format!("{tag}|{ok_maps}|{ok_locs}"));
        out
    }
}
