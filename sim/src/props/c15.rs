//! C15 — embeddable signing returns bytes of exactly the placeholder size.
//! The simulator plays the caller of the placeholder workflow on a simulated disk image.

use std::sync::Arc;

use c2pa::{Builder, HashRange, Signer, SigningAlg};
use serde_json::json;

use crate::{
    assets::{self, Fmt},
    harness::{Meta, Property, RunCtx, RunOut, Tier},
    report::err_kind,
    rng::{hash_str, Rng},
    sdk,
    stream::{self, FaultPlan, SimStream},
};

pub struct C15;

/// fixture signer with a different reserve size
struct Reserve {
    inner: c2pa::BoxedSigner,
    extra: usize,
}

impl Signer for Reserve {
    fn sign(&self, data: &[u8]) -> c2pa::Result<Vec<u8>> {
        self.inner.sign(data)
    }
    fn alg(&self) -> SigningAlg {
        self.inner.alg()
    }
    fn certs(&self) -> c2pa::Result<Vec<Vec<u8>>> {
        self.inner.certs()
    }
    fn reserve_size(&self) -> usize {
        self.inner.reserve_size() + self.extra
    }
}

/// grow an asset by inserting big, legal, inert units so that offsets get large
fn inflate(fmt: Fmt, a: &[u8], units: usize, r: &mut Rng) -> Vec<u8> {
    let mut v = a.to_vec();
    for _ in 0..units {
        let n = 20_000 + r.below(40_000) as usize;
        match fmt {
            Fmt::Jpeg => {
                // COM segment after APP0 (offset 20)
                let mut s = vec![0xFF, 0xFE];
                s.extend(((n + 2) as u16).to_be_bytes());
                s.extend(std::iter::repeat(0x41).take(n));
                v.splice(20..20, s);
            }
            Fmt::Png => {
                // tEXt chunk after IHDR (offset 33)
                let mut body = b"tEXt".to_vec();
                body.extend(b"Comment\0");
                body.extend(std::iter::repeat(0x42).take(n));
                let mut c = ((body.len() - 4) as u32).to_be_bytes().to_vec();
                let crc = assets::crc32(&body);
                c.extend(body);
                c.extend(crc.to_be_bytes());
                v.splice(33..33, c);
            }
            _ => {}
        }
    }
    v
}

impl Property for C15 {
    fn meta(&self) -> Meta {
        Meta {
            id: "C15",
            level: "exploration",
            rule: "one evaluation = one complete placeholder workflow against the real Builder: placeholder(fmt) -> the simulator embeds the returned bytes at the format's manifest position on a disk image -> set_data_hash_exclusions (1..12 ranges; offsets and lengths drawn around the CBOR integer-width boundaries 23/24, 255/256, 65535/65536 on assets inflated to 40-250 KB) -> update_hash_from_stream over a SimStream with seeded chunking -> sign_embeddable(fmt) -> patch in place -> Reader; half of the runs use the older pair data_hashed_placeholder(reserve) -> caller-built DataHash (same exclusion lists, hash over a chunking SimStream) -> sign_data_hashed_embeddable. Formats JPEG, PNG, GIF, JPEG XL; signer reserve size minimal..+20000; seeded definitions. Oracle: sign_embeddable errs or returns exactly placeholder.len() bytes; the patched image reads Valid/Trusted. Non-trivial = workflow reached sign_embeddable; distinct = (format, number of exclusions, widths of the exclusion integers, reserve size)",
            assumptions: &["BMFF is excluded (documented to outgrow the placeholder with Merkle leaves); TIFF and .c2pa composed manifests are not embedded by the simulator", "only hash-pass chunking is scheduled; the statement demands nothing else"],
            real: &["Builder::placeholder / set_data_hash_exclusions / update_hash_from_stream / sign_embeddable, Reader"],
            stubbed: &["the caller (simulator embeds and patches the disk image)", "asset stream of the hash pass (SimStream)"],
            crash_prop: "C15",
        }
    }

    fn runs(&self, tier: Tier) -> u64 {
        match tier {
            Tier::Quick => 4 * 6000,
            Tier::Thorough => 4 * 60_000,
        }
    }

    fn run(&self, rc: &mut RunCtx) -> RunOut {
        let mut out = RunOut::default();
        let fmts = [Fmt::Jpeg, Fmt::Png, Fmt::Gif, Fmt::Jxl];
        let fmt = fmts[(rc.idx % 4) as usize];
        let mut r = rc.rng.fork("w");
        let base = assets::generate(fmt, &mut r);
        let big = r.chance(2, 3);
        let asset = if big { inflate(fmt, &base, r.usize(1, 4), &mut r) } else { base };
        let extra = *r.pick(&[0usize, 0, 1, 100, 5000, 20_000]);
        let n_excl = r.usize(1, 11);
        let chunk = if r.chance(1, 2) { 0 } else { 1 + r.below(5000) as usize };
        let crng = r.fork("c");
        out.evals += 1;
        // manifest position = where the handler itself would put it
        let off = match c2pa::verif::object_locations_from_stream(fmt.mime(), &mut std::io::Cursor::new(asset.clone())) {
            Ok(l) => match l.iter().find(|x| x.2 == 0) {
                Some(x) => x.0,
                None => {
                    out.harness_error = Some("no manifest position".into());
                    return out;
                }
            },
            Err(e) => {
                out.harness_error = Some(format!("locations: {e:?}"));
                return out;
            }
        };
        let signer = Reserve { inner: sdk::make_signer("ed25519"), extra };
        let ctx = Arc::new(sdk::make_context(&json!({})).with_signer(signer));
        let vctx = Arc::new(sdk::make_context(&json!({})));
        let mut def = sdk::simple_definition(&format!("c15-{}", rc.idx));
        if r.chance(1, 2) {
            // vary the definition size
            let n = r.usize(1, 600);
            def["assertions"].as_array_mut().unwrap().push(json!({"label": "org.sim.blob", "data": {"b": "x".repeat(n)}}));
        }
        // half of the runs take the older pair data_hashed_placeholder / sign_data_hashed_embeddable,
        // where the caller computes the data hash and hands it over
        let legacy = r.chance(1, 2);
        let tag = format!("{}:{}excl:reserve+{extra}:{}{}", fmt.name(), n_excl, if big { "big" } else { "tiny" }, if legacy { ":data_hashed_api" } else { "" });
        let res = sdk::guarded(|| -> Result<(usize, Vec<u8>, Vec<u8>, Vec<(u64, u64)>), String> {
            let mut b = Builder::from_shared_context(&ctx).with_definition(def.clone()).map_err(|e| format!("def:{}", err_kind(&e)))?;
            let signer2 = Reserve { inner: sdk::make_signer("ed25519"), extra };
            let ph = if legacy {
                b.data_hashed_placeholder(signer2.reserve_size(), fmt.mime()).map_err(|e| format!("data_hashed_placeholder:{}", err_kind(&e)))?
            } else {
                b.placeholder(fmt.mime()).map_err(|e| format!("placeholder:{}", err_kind(&e)))?
            };
            if ph.is_empty() {
                return Err("placeholder:empty".into());
            }
            let mut image = asset[..off].to_vec();
            image.extend(&ph);
            image.extend(&asset[off..]);
            // exclusions: the placeholder first, then small ranges in the media bytes after it
            let mut ex: Vec<(u64, u64)> = vec![(off as u64, ph.len() as u64)];
            let after = off + ph.len();
            let room = image.len().saturating_sub(after);
            let mut rr = r.clone();
            let mut cursor = after as u64;
            // starts and lengths spread over the CBOR integer widths (1, 2, 3 and 5 bytes) so that
            // the encoded list differs from the reserved ten-entry list by every possible amount
            for k in 1..n_excl {
                if room < 64 {
                    break;
                }
                let left = (n_excl - k) as u64;
                let end = image.len() as u64;
                // leave room for the ranges still to come
                let len_class = rr.below(3);
                let mut len = match len_class {
                    0 => 1 + rr.below(23),
                    1 => 24 + rr.below(232),
                    _ => 256 + rr.below(3000),
                };
                let jump_far = rr.chance(1, 3);
                let mut start = if jump_far && cursor < 65_536 && end > 65_536 + 4000 * (left + 1) { 65_536 + rr.below(64) } else { cursor + 1 + rr.below(40) };
                if start <= cursor {
                    start = cursor + 1;
                }
                if start + len + 8 * left + 8 >= end {
                    len = 1;
                }
                if start + len + 8 * left + 8 >= end {
                    break;
                }
                ex.push((start, len));
                cursor = start + len;
            }
            if legacy {
                let mut dh = c2pa::assertions::DataHash::new("jumbf manifest", "sha256");
                for (s0, l0) in &ex {
                    dh.add_exclusion(HashRange::new(*s0, *l0));
                }
                let world = stream::new_world(FaultPlan { max_chunk: chunk, ..Default::default() }, Some(crng.clone()));
                let mut s = SimStream::new(&world, 0, image.clone());
                dh.gen_hash_from_stream(&mut s).map_err(|e| format!("gen_hash:{}", err_kind(&e)))?;
                let signed = b.sign_data_hashed_embeddable(&signer2, &dh, fmt.mime()).map_err(|e| format!("sign_data_hashed_embeddable:{}", err_kind(&e)))?;
                return Ok((ph.len(), signed, image, ex));
            }
            b.set_data_hash_exclusions(ex.iter().map(|(s, l)| HashRange::new(*s, *l)).collect()).map_err(|e| format!("set_excl:{}", err_kind(&e)))?;
            let world = stream::new_world(FaultPlan { max_chunk: chunk, ..Default::default() }, Some(crng.clone()));
            let mut s = SimStream::new(&world, 0, image.clone());
            b.update_hash_from_stream(fmt.mime(), &mut s).map_err(|e| format!("update_hash:{}", err_kind(&e)))?;
            let signed = b.sign_embeddable(fmt.mime()).map_err(|e| format!("sign_embeddable:{}", err_kind(&e)))?;
            Ok((ph.len(), signed, image, ex))
        });
        let (ph_len, signed, mut image, ex) = match res {
            Err(p) => {
                out.violate(0, &format!("panic:{}", p.split('|').next().unwrap_or("?")), "C15 never panics", json!({"scenario": tag, "panic": p}));
                return out;
            }
            Ok(Err(e)) => {
                out.probe(&format!("workflow-err:{e}"));
                out.sample = Some(json!({"scenario": tag, "result": e}));
                return out;
            }
            Ok(Ok(x)) => x,
        };
        out.fault("benign_chunking");
        let widths: Vec<u8> = ex.iter().flat_map(|(s, l)| [*s, *l]).map(|v| if v < 24 { 0 } else if v < 256 { 1 } else if v < 65_536 { 2 } else { 4 }).collect();
        out.keys.push(hash_str(&format!("{}|{}|{:?}|{extra}", fmt.name(), ex.len(), widths)));
        out.sample = Some(json!({"scenario": tag, "placeholder_len": ph_len, "signed_len": signed.len(), "exclusions": ex, "image_len": image.len()}));
        if signed.len() != ph_len {
            out.violate(0, &format!("embeddable-size-differs:{}", if signed.len() > ph_len { "longer" } else { "shorter" }),
                "C15 sign_embeddable returns exactly the placeholder length or an error",
                json!({"scenario": tag, "placeholder_len": ph_len, "returned_len": signed.len(), "exclusions": ex}));
            return out;
        }
        image[off..off + ph_len].copy_from_slice(&signed);
        match sdk::read_plain(&vctx, fmt.mime(), &image) {
            Ok(rep) if rep.is_ok_state() => out.probe("patched-asset-valid"),
            Ok(rep) => out.violate(0, &format!("patched-asset-not-valid:{}", fmt.name()), "C15 a patched asset reads back Valid",
                json!({"scenario": tag, "state": rep.brief(), "exclusions": ex})),
            Err(e) => out.violate(0, &format!("patched-asset-unreadable:{}:{e}", fmt.name()), "C15 a patched asset reads back Valid",
                json!({"scenario": tag, "error": e, "exclusions": ex})),
        }
        out.digest = hash_str(&format!("{tag}|{}", signed.len()));
        out
    }
}
