//! C40 — synchronous and asynchronous APIs behave identically.
//! Reference model = the synchronous call; the asynchronous form runs on the seeded executor.

use std::{future::Future, pin::Pin, sync::Arc};

use c2pa::{Builder, Reader};
use serde_json::json;

use crate::{
    assets::{self, Fmt},
    defs,
    exec::{self, PendSource, SimAsyncSigner},
    harness::{Meta, Property, RunCtx, RunOut, Tier},
    ops::{self, ExecEnv, Op, Outcome},
    report::{err_kind, Report},
    rng::{hash_str, Rng},
    sdk::{self, Binding},
    stream::{self, FaultPlan, SimStream},
};

pub struct C40;

const OPS: [Op; 5] = [Op::Sign, Op::SignSidecar, Op::Read, Op::ReadSidecar, Op::AddIngredient];

impl Property for C40 {
    fn meta(&self) -> Meta {
        Meta {
            id: "C40",
            level: "exploration",
            rule: "one evaluation = one pair (synchronous call, asynchronous call) of the same public operation - Builder::sign / sign with no_embed / Reader::with_stream / Reader::with_manifest_data_and_stream / Builder::add_ingredient_from_stream - on identical inputs, settings, signer key (ed25519, es256/384/512 returning r||s or ASN.1 DER signatures, ps256) and seeded SDK randomness, the asynchronous form driven by the simulator's seeded executor (0-4 Pendings per leaf future; in a third of the runs 2-3 asynchronous operations share one Arc<Context> and are polled in PRNG order), under one of: no fault, the same one-shot stream fault at a seeded call index, the same cancel index of the progress callback, seeded benign chunking. Oracle: same error kind, or outputs that read back to the same report and code multiset. Non-trivial = both forms ran; distinct = (operation, format, binding, fault plan, executor schedule)",
            assumptions: &["workloads carry no CAWG identity assertions (documented async-only)", "the async signer wraps the same raw signer as the sync one"],
            real: &["every #[async_generic] pair on the exercised surface, Store::save_to_stream(_async), Claim::verify_claim(_async)"],
            stubbed: &["executor (seeded, single thread)", "async signer future", "caller streams (SimStream)"],
            crash_prop: "C10",
        }
    }

    fn runs(&self, tier: Tier) -> u64 {
        match tier {
            Tier::Quick => 5 * 11 * 12,
            Tier::Thorough => 5 * 11 * 1200,
        }
    }

    fn run(&self, rc: &mut RunCtx) -> RunOut {
        let mut out = RunOut::default();
        let op = OPS[(rc.idx % 5) as usize];
        let fmt: Fmt = assets::ALL[((rc.idx / 5) % 11) as usize];
        let mut r = rc.rng.fork("w");
        let binding = if sdk::fmt_supports_box(fmt) && r.chance(1, 3) { Binding::Box } else { Binding::Default };
        let overlay = sdk::binding_overlay(binding);
        let vctx = Arc::new(sdk::make_context(&overlay));
        let g = defs::generate(&mut r, false);
        let asset = assets::generate(fmt, &mut r);
        let seed0 = hash_str(&format!("c40-{}-{}", rc.seed, rc.idx));
        c2pa::verif::set_random_seed(Some(seed0));
        let mut def = g.def.clone();
        if g.claim_version == 1 {
            def = sdk::simple_definition(&g.title);
        }
        // signing algorithm and signature encoding vary too (ECDSA signers returning DER)
        let alg = *r.pick(&["ed25519", "ed25519", "es256", "es384", "es512", "ps256", "es256-der", "es384-der", "es512-der"]);
        let mut sc = match ops::prepare(op, fmt, alg, asset, def, &vctx) {
            Ok(s) => s,
            Err(e) => {
                out.harness_error = Some(format!("prepare {}:{}: {e}", op.name(), fmt.name()));
                return out;
            }
        };
        sc.signed = rc.artefact("signed", || sc.signed.clone());
        sc.sidecar = rc.artefact("sidecar", || sc.sidecar.clone());
        let tag = format!("{}:{}:{:?}:{alg}", op.name(), fmt.name(), binding);
        // count stream calls / callbacks fault-free (sync)
        let run = |is_async: bool, plan: FaultPlan, cancel_at: Option<usize>, chunk_rng: Option<Rng>, pend: u32| -> (Outcome, u64, usize) {
            c2pa::verif::set_random_seed(Some(seed0 ^ 1));
            let ctx = ops::make_ctx(&overlay);
            let world = stream::new_world(plan, chunk_rng);
            ops::cb_reset(Some(world.clone()), cancel_at);
            let env = ExecEnv { ctx: &ctx, verify_ctx: &vctx, world: &world, pend: if is_async { Some(PendSource::new(Rng::new(seed0 ^ 9), pend)) } else { None } };
            let o = ops::exec(&sc, &env);
            let ncb = ops::cb_take_log().len();
            ops::cb_reset(None, None);
            (o, stream::stats(&world).ops, ncb)
        };
        let (ctl, n_ops, n_cb) = run(false, FaultPlan::default(), None, None, 0);
        out.evals += 1;
        if ctl.is_err() {
            out.harness_error = Some(format!("control {tag}: {}", ctl.brief()));
            return out;
        }
        let n_cases = match rc.tier {
            Tier::Quick => 10,
            Tier::Thorough => 24,
        };
        for c in 0..n_cases {
            let sub = c as u64;
            let kind = if c == 0 { 0 } else { r.below(4) };
            let k = r.below(n_ops.max(1));
            let kc = 1 + r.below(n_cb.max(1) as u64) as usize;
            let chunk = 1 + r.below(64) as usize;
            let pend = r.below(5) as u32;
            let crng = r.fork("c");
            if !rc.want_sub(sub) {
                continue;
            }
            rc.mark(sub);
            let (plan, cancel, cr, what) = match kind {
                0 => (FaultPlan::default(), None, None, "none".to_string()),
                1 => (FaultPlan { fail_at: Some(k), ..Default::default() }, None, None, format!("one-shot I/O error at call {k}")),
                2 => (FaultPlan::default(), Some(kc), None, format!("cancel at callback {kc}")),
                _ => (FaultPlan { max_chunk: chunk, ..Default::default() }, None, Some(crng), format!("chunk<={chunk}")),
            };
            let s = sdk::guarded(|| run(false, plan.clone(), cancel, cr.clone(), 0));
            let a = sdk::guarded(|| run(true, plan.clone(), cancel, cr.clone(), pend));
            out.evals += 2;
            let (s, a) = match (s, a) {
                (Ok(s), Ok(a)) => (s, a),
                (s, a) => {
                    let p = s.err().or(a.err()).unwrap_or_default();
                    out.violate(sub, &format!("panic:{}", p.split('|').next().unwrap_or("?")), "G1 no panic", json!({"scenario": tag, "plan": what, "panic": p}));
                    continue;
                }
            };
            out.fault(["no_fault", "oneshot_io_error", "cancel_at_callback", "benign_chunking"][kind as usize]);
            out.keys.push(hash_str(&format!("{tag}|{what}|{pend}")));
            out.steps += s.1 + a.1;
            if s.0 != a.0 {
                let cls = match (&s.0, &a.0) {
                    (Outcome::Err(x), Outcome::Err(y)) => format!("error-kinds:{x}-vs-{y}"),
                    (Outcome::Err(x), _) => format!("sync-err-{x}-async-ok"),
                    (_, Outcome::Err(y)) => format!("sync-ok-async-err-{y}"),
                    _ => "different-reports".to_string(),
                };
                out.violate(sub, &format!("sync-async-differ:{}:{cls}", op.name()), "C40 the asynchronous form yields the same outcome as the synchronous one",
                    json!({"scenario": tag, "plan": what, "pendings_max": pend, "sync": s.0.brief(), "async": a.0.brief(), "sync_stream_calls": s.1, "async_stream_calls": a.1}));
            } else {
                out.probe(if s.0.is_err() { "same-error" } else { "same-ok" });
            }
        }
        // several async operations in flight on one context, polled in PRNG order
        if matches!(op, Op::Read | Op::Sign) && rc.idx % 3 == 0 {
            let sub = 1000;
            if rc.want_sub(sub) {
                let n = 2 + r.below(2) as usize;
                let ctx = ops::make_ctx(&overlay);
                c2pa::verif::set_random_seed(Some(seed0 ^ 1));
                let mut futs: Vec<Option<Pin<Box<dyn Future<Output = Result<String, String>>>>>> = Vec::new();
                for i in 0..n {
                    let ctx = ctx.clone();
                    let bytes = if op == Op::Read { sc.signed.clone() } else { sc.asset.clone() };
                    let def = sc.def.clone();
                    let mime = fmt.mime();
                    let pend = PendSource::new(Rng::new(seed0 ^ (i as u64 + 77)), 4);
                    let is_read = op == Op::Read;
                    futs.push(Some(Box::pin(async move {
                        if is_read {
                            exec::PendN(pend.draw()).await;
                            Reader::from_shared_context(&ctx).with_stream_async(mime, std::io::Cursor::new(bytes)).await.map(|r| Report::from_reader(&r).brief()).map_err(|e| err_kind(&e))
                        } else {
                            let mut b = Builder::from_shared_context(&ctx).with_definition(def).map_err(|e| err_kind(&e))?;
                            let s = SimAsyncSigner { inner: sdk::make_signer(alg), pend };
                            let mut src = std::io::Cursor::new(bytes);
                            let mut dst = std::io::Cursor::new(Vec::new());
                            b.sign_async(&s, mime, &mut src, &mut dst).await.map(|_| "signed".to_string()).map_err(|e| err_kind(&e))
                        }
                    })));
                }
                let mut rr = r.fork("race");
                let drop_one = if r.chance(1, 3) { Some((0usize, 1 + r.below(3) as u32)) } else { None };
                let res = sdk::guarded(|| exec::race(futs, &mut rr, drop_one));
                out.evals += 1;
                match res {
                    Err(p) => out.violate(sub, &format!("panic:{}", p.split('|').next().unwrap_or("?")), "G1 no panic", json!({"scenario": tag, "plan": "interleaved", "panic": p})),
                    Ok(v) => {
                        out.fault("interleaved_async_ops");
                        out.keys.push(hash_str(&format!("{tag}|race|{n}|{drop_one:?}")));
                        for (i, x) in v.iter().enumerate() {
                            match x {
                                None => out.probe("future-dropped-mid-await"),
                                Some(Ok(s)) => {
                                    let want = if op == Op::Read { ctl.brief().trim_start_matches("Ok(").trim_end_matches(')').to_string() } else { "signed".to_string() };
                                    if *s != want {
                                        out.violate(sub, &format!("interleaved-async-differs:{}", op.name()), "C40 same outcome when several async operations share a context",
                                            json!({"scenario": tag, "future": i, "got": s, "want": want}));
                                    } else {
                                        out.probe("interleaved-same");
                                    }
                                }
                                Some(Err(e)) => out.violate(sub, &format!("interleaved-async-fails:{}:{e}", op.name()), "C40 same outcome when several async operations share a context",
                                    json!({"scenario": tag, "future": i, "error": e})),
                            }
                        }
                    }
                }
            }
        }
        out.sample = Some(json!({"scenario": tag, "control": ctl.brief(), "stream_calls": n_ops, "callbacks": n_cb, "probes": out.probes}));
        out.digest = hash_str(&format!("{tag}|{:?}", out.probes));
        out
    }
}
