//! C13 — range hashing equals the digest of exactly the selected bytes.
//! Reference model vs `c2pa::hash_stream_by_alg` over SimStreams, with the chunk-size knob
//! (hook H2), the hash worker thread under the turnstile, and I/O faults mid-pipeline.

use c2pa::{hash_stream_by_alg, HashRange};
use serde_json::json;
use sha2::{Digest, Sha256, Sha384, Sha512};

use crate::{
    harness::{Meta, Property, RunCtx, RunOut, Tier},
    report::err_kind,
    rng::{hash_str, Rng},
    sdk,
    stream::{self, FaultPlan, SimStream},
    turnstile,
};

pub struct C13;

#[derive(Clone, Debug)]
struct R {
    start: u64,
    len: u64,
    marker: bool,
    /// markers: the offset (position) of the marker; `start`/`len` are then only what the
    /// HashRange is constructed with (the SDK's own BMFF code uses start == offset, len 1)
    offset: u64,
}

fn digest(alg: &str, bytes: &[u8]) -> Vec<u8> {
    match alg {
        "sha256" => Sha256::digest(bytes).to_vec(),
        "sha384" => Sha384::digest(bytes).to_vec(),
        _ => Sha512::digest(bytes).to_vec(),
    }
}

/// Reference: Err(()) when the statement says "rejected", else the bytes to be digested.
fn model(data: &[u8], ranges: &[R], exclusion: bool) -> Result<Vec<u8>, ()> {
    let n = data.len() as u64;
    if ranges.is_empty() {
        return Ok(data.to_vec());
    }
    for r in ranges {
        match r.start.checked_add(r.len) {
            None => return Err(()),
            Some(e) if e > n => return Err(()),
            _ => {}
        }
    }
    let mut out = Vec::new();
    if exclusion {
        let mut excluded = vec![false; data.len()];
        let mut markers: Vec<u64> = Vec::new();
        for r in ranges {
            if r.marker {
                markers.push(r.offset);
                continue;
            }
            for i in r.start..r.start + r.len {
                excluded[i as usize] = true;
            }
        }
        markers.sort();
        markers.dedup();
        for (i, b) in data.iter().enumerate() {
            if markers.contains(&(i as u64)) {
                out.extend_from_slice(&(i as u64).to_be_bytes());
            }
            if !excluded[i] {
                out.push(*b);
            }
        }
    } else {
        let mut rs: Vec<&R> = ranges.iter().collect();
        rs.sort_by_key(|r| r.start);
        for r in rs {
            out.extend_from_slice(&data[r.start as usize..(r.start + r.len) as usize]);
        }
    }
    Ok(out)
}

fn to_hr(ranges: &[R]) -> Vec<HashRange> {
    ranges
        .iter()
        .map(|r| {
            let mut h = HashRange::new(r.start, r.len);
            if r.marker {
                h.set_bmff_offset(r.offset);
            }
            h
        })
        .collect()
}

fn gen_ranges(r: &mut Rng, n: u64, exclusion: bool) -> Vec<R> {
    let k = r.below(7);
    let mut v = Vec::new();
    for _ in 0..k {
        let pick = |r: &mut Rng| -> u64 {
            match r.below(12) {
                0 => 0,
                1 => 1,
                2 => n.saturating_sub(1),
                3 => n,
                4 => n + 1,
                5 => u64::MAX - r.below(4),
                6 => n / 2,
                _ => r.below(n + 2),
            }
        };
        let start = pick(r);
        let len = match r.below(10) {
            0 => 0,
            1 => 1,
            2 => n.saturating_sub(start.min(n)),
            3 => n.saturating_sub(start.min(n)) + 1,
            4 => u64::MAX - r.below(3),
            _ => r.below(n.saturating_sub(start.min(n)) + 2),
        };
        v.push(R { start, len, marker: false, offset: 0 });
    }
    v
}

fn add_markers(r: &mut Rng, v: &mut Vec<R>, n: u64) {
    // markers only at included positions of an otherwise valid exclusion list
    if n == 0 {
        return;
    }
    for _ in 0..r.below(3) {
        let pos = r.below(n);
        let inside_excl = v.iter().any(|x| !x.marker && pos >= x.start && pos < x.start.saturating_add(x.len));
        let dup = v.iter().any(|x| x.marker && x.offset == pos);
        if !inside_excl && !dup {
            // mostly the SDK's own shape (start == offset), sometimes a marker range whose
            // start differs from its offset (legal through the public HashRange API)
            let start = if r.chance(1, 3) { r.below(n) } else { pos };
            v.push(R { start, len: 1, marker: true, offset: pos });
        }
    }
}

fn sdk_hash(alg: &str, data: &[u8], ranges: &[R], exclusion: bool, plan: FaultPlan, rng: Option<Rng>, yield_on_op: bool) -> (Result<Vec<u8>, String>, stream::WorldStats) {
    let world = stream::new_world(plan, rng);
    world.lock().unwrap().yield_on_op = yield_on_op;
    let mut s = SimStream::new(&world, 0, data.to_vec());
    let hr = if ranges.is_empty() { None } else { Some(to_hr(ranges)) };
    let r = hash_stream_by_alg(alg, &mut s, hr, exclusion).map_err(|e| err_kind(&e));
    (r, stream::stats(&world))
}

impl Property for C13 {
    fn meta(&self) -> Meta {
        Meta {
            id: "C13",
            level: "exploration",
            rule: "one evaluation = c2pa::hash_stream_by_alg on a SimStream of 0..4096 seeded bytes with 0..6 seeded ranges (starts/lengths from {0,1,len-1,len,len+1,u64::MAX-k,random}; unsorted, overlapping, adjacent, empty; exclusion or inclusion mode; BMFF offset markers at included positions; sha256/384/512) compared with the simulator's reference model (concatenate the selected bytes, 8-byte BE offsets at markers, digest with sha2 directly; any range past the end => must be Err), repeated under 4 values of the read-chunk knob (hook H2, so the hash worker thread really runs), under seeded benign chunking, under the turnstile scheduler (worker and caller interleaved at every seam call) and with a hard read/seek error injected at the k-th stream call (=> must be Err). Quick additionally enumerates the complete space len<=5, <=2 ranges, starts/lengths<=6, both modes. Non-trivial = ranges non-empty; distinct = (data length, ranges, mode, alg, knob, config)",
            assumptions: &[
                "markers are generated only in exclusion mode at included positions (the only way the SDK produces them and the only place their meaning is unambiguous)",
                "empty data may be rejected",
            ],
            real: &["c2pa::hash_stream_by_alg incl. the read-ahead worker thread and mpsc hand-off"],
            stubbed: &["data stream (SimStream)", "chunk size (knob instead of 256 MiB)"],
            crash_prop: "C13",
        }
    }

    fn runs(&self, tier: Tier) -> u64 {
        match tier {
            Tier::Quick => 16 * 12,
            Tier::Thorough => 16 * 600,
        }
    }

    fn run(&self, rc: &mut RunCtx) -> RunOut {
        let mut out = RunOut::default();
        let per_run = match rc.tier { Tier::Quick => 50u64, Tier::Thorough => 300 };
        let exhaustive_run = rc.idx < 16; // first 16 runs: shards of the small exhaustive space
        let mut sub = 0u64;

        let mut judge = |out: &mut RunOut, sub: u64, data: &[u8], ranges: &[R], exclusion: bool, alg: &str, knobs: &[usize], rng: &mut Rng, with_faults: bool, with_turnstile: bool| {
            let want = model(data, ranges, exclusion).map(|b| digest(alg, &b));
            let desc = || json!({"len": data.len(), "ranges": ranges.iter().map(|r| if r.marker { format!("M@{}({}+{})", r.offset, r.start, r.len) } else { format!("{}+{}", r.start, r.len) }).collect::<Vec<_>>(), "exclusion": exclusion, "alg": alg});
            let mut first: Option<Result<Vec<u8>, String>> = None;
            let mut control_ops = 0;
            for (ki, knob) in knobs.iter().enumerate() {
                c2pa::verif::set_max_hash_buf(*knob);
                let chunk = if ki % 2 == 1 { 1 + rng.below(9) as usize } else { 0 };
                let crng = rng.fork("c");
                let (got, st) = match sdk::guarded(|| sdk_hash(alg, data, ranges, exclusion, FaultPlan { max_chunk: chunk, ..Default::default() }, Some(crng), false)) {
                    Ok(x) => x,
                    Err(p) => {
                        out.violate(sub, &format!("panic:{}", p.split('|').next().unwrap_or("?")), "C13 nothing panics", json!({"case": desc(), "knob": knob, "panic": p}));
                        continue;
                    }
                };
                out.evals += 1;
                out.steps += st.ops;
                if ki == 0 {
                    control_ops = st.ops;
                }
                if !ranges.is_empty() {
                    out.keys.push(hash_str(&format!("{:?}|{exclusion}|{alg}|{knob}|{chunk}|{}", ranges, data.len())));
                }
                match (&want, &got) {
                    (Err(()), Ok(_)) => {
                        // which range is past the end but not the last after sorting?
                        out.violate(sub, "range-past-end-accepted", "C13 ranges reaching past the end of the data are rejected",
                            json!({"case": desc(), "knob": knob, "observed": "Ok(digest)"}));
                    }
                    (Ok(w), Ok(g)) if w != g => {
                        let n = data.len() as u64;
                        let excl_at = |p: u64| ranges.iter().any(|x| !x.marker && p >= x.start && p < x.start + x.len);
                        let is_marker = |p: u64| ranges.iter().any(|x| x.marker && x.offset == p);
                        let marker_last = ranges.iter().any(|r| r.marker && (r.offset + 1 >= n || excl_at(r.offset + 1) || is_marker(r.offset + 1)));
                        let cls = if marker_last {
                            "marker-piece-of-one-byte"
                        } else if ranges.iter().any(|r| r.marker) {
                            "with-markers"
                        } else if exclusion {
                            "exclusion"
                        } else {
                            "inclusion"
                        };
                        out.violate(sub, &format!("digest-differs-from-model:{cls}"), "C13 digest of exactly the selected bytes",
                            json!({"case": desc(), "knob": knob, "chunk": chunk}));
                    }
                    (Ok(_), Err(e)) if !data.is_empty() => {
                        out.violate(sub, &format!("valid-ranges-rejected:{e}"), "C13 valid ranges are hashed",
                            json!({"case": desc(), "knob": knob, "error": e}));
                    }
                    _ => {}
                }
                match &first {
                    None => first = Some(got.clone()),
                    Some(f) => {
                        if f.is_ok() != got.is_ok() || (f.is_ok() && f != &got) {
                            out.violate(sub, "result-depends-on-chunk-size", "C13 independent of read-chunk size and pipelining",
                                json!({"case": desc(), "knob": knob, "first": f.as_ref().map(hex::encode).map_err(|e| e.clone()), "now": got.as_ref().map(hex::encode).map_err(|e| e.clone())}));
                        }
                    }
                }
            }
            // I/O fault mid-pipeline: must be Err
            if with_faults && want.is_ok() && control_ops > 0 && !data.is_empty() {
                let knob = knobs[knobs.len() - 1];
                c2pa::verif::set_max_hash_buf(knob);
                let (_, st0) = sdk_hash(alg, data, ranges, exclusion, FaultPlan::default(), None, false);
                let k = rng.below(st0.ops.max(1));
                let (got, st) = sdk_hash(alg, data, ranges, exclusion, FaultPlan { fail_at: Some(k), sticky: rng.chance(1, 2), ..Default::default() }, None, false);
                out.evals += 1;
                if st.fired.is_some() {
                    out.fault("io_error_mid_pipeline");
                    if got.is_ok() {
                        out.violate(sub, "io-error-yields-digest", "C13 after an injected error the result is Err, never a digest",
                            json!({"case": desc(), "knob": knob, "failed_call": k, "of": st0.ops}));
                    }
                }
            }
            // the worker thread under the turnstile
            if with_turnstile && want.is_ok() && data.len() > 2 {
                let knob = (data.len() / 24).max(1) + rng.below((data.len() as u64 / 2).max(1)) as usize;
                c2pa::verif::set_max_hash_buf(knob);
                let srng = rng.fork("sched");
                turnstile::begin(srng, None, 3);
                let d2 = data.to_vec();
                let r2 = ranges.to_vec();
                let a2 = alg.to_string();
                let h = turnstile::spawn(move || sdk_hash(&a2, &d2, &r2, exclusion, FaultPlan::default(), None, true).0);
                turnstile::join_all();
                let tso = turnstile::end();
                let got = h.join().unwrap_or(Err("panic".into()));
                out.evals += 1;
                out.interleavings.push(tso.trace_digest);
                out.probe_n("turnstile_threads", tso.threads as u64);
                out.probe_n("turnstile_switches", tso.switches);
                if let (Some(Ok(w)), Ok(g)) = (&first, &got) {
                    // reference here is the SDK's own sequential result: only the schedule differs
                    if w != g {
                        out.schedule = Some(tso.decisions.clone());
                        out.violate(sub, "digest-depends-on-schedule", "C13 independent of thread pipelining",
                            json!({"case": desc(), "knob": knob}));
                    }
                } else if got.is_err() {
                    out.schedule = Some(tso.decisions.clone());
                    out.violate(sub, "valid-ranges-rejected-under-schedule", "C13 valid ranges are hashed", json!({"case": desc(), "knob": knob, "error": got.err()}));
                }
            }
            c2pa::verif::set_max_hash_buf(0);
        };

        if exhaustive_run {
            // complete small space, sharded 16 ways by a running counter
            let mut counter = 0u64;
            let algs = ["sha256"];
            for len in 0..=5u64 {
                let data: Vec<u8> = (0..len).map(|i| (i * 37 + 11) as u8).collect();
                let mut singles: Vec<R> = Vec::new();
                for s in 0..=6u64 {
                    for l in 0..=6u64 {
                        singles.push(R { start: s, len: l, marker: false, offset: 0 });
                    }
                }
                let mut lists: Vec<Vec<R>> = vec![vec![]];
                for a in &singles {
                    lists.push(vec![a.clone()]);
                }
                for a in &singles {
                    for b in &singles {
                        lists.push(vec![a.clone(), b.clone()]);
                    }
                }
                for l in &lists {
                    for excl in [true, false] {
                        counter += 1;
                        if counter % 16 != rc.idx {
                            continue;
                        }
                        let s = sub;
                        sub += 1;
                        let mut r = Rng::new(counter);
                        if !rc.want_sub(s) {
                            continue;
                        }
                        judge(&mut out, s, &data, l, excl, algs[0], &[1, 3, 4096], &mut r, false, false);
                    }
                }
            }
            out.sample = Some(json!({"scenario": "exhaustive small space (len<=5, <=2 ranges, starts/lengths<=6)", "shard": rc.idx, "evaluations": out.evals}));
            out.digest = hash_str(&format!("ex|{}|{}", rc.idx, out.evals));
            return out;
        }

        for c in 0..per_run {
            let s = c;
            let mut r = rc.rng.fork("case");
            if !rc.want_sub(s) {
                continue;
            }
            rc.mark(s);
            let n = match r.below(6) {
                0 => r.below(4),
                1 => r.below(64),
                _ => r.below(4097),
            };
            let data = r.bytes(n as usize);
            let exclusion = r.chance(3, 4);
            let mut ranges = gen_ranges(&mut r, n, exclusion);
            // make most lists valid so that digests are compared, not only rejections
            if r.chance(2, 3) {
                for x in ranges.iter_mut() {
                    x.start = x.start.min(n);
                    x.len = x.len.min(n - x.start);
                }
            }
            if exclusion && model(&data, &ranges, true).is_ok() {
                add_markers(&mut r, &mut ranges, n);
            }
            r.shuffle(&mut ranges);
            let alg = *r.pick(&["sha256", "sha384", "sha512"]);
            // at most ~12 chunks (= worker threads) per hashed range
            let floor = (n as usize / 12).max(1);
            let k1 = floor + r.below(16) as usize;
            let k2 = floor + r.below(n.max(1)) as usize;
            let k3 = floor.max(7);
            judge(&mut out, s, &data, &ranges, exclusion, alg, &[1 << 20, k1, k2, k3], &mut r, c % 3 == 0, c % 10 == 0);
            if c == 0 {
                out.sample = Some(json!({"len": n, "exclusion": exclusion, "alg": alg,
                    "ranges": ranges.iter().map(|r| if r.marker { format!("M@{}({}+{})", r.offset, r.start, r.len) } else { format!("{}+{}", r.start, r.len) }).collect::<Vec<_>>(),
                    "knobs": [1 << 20, k1, k2, k3]}));
            }
        }
        out.digest = hash_str(&format!("{}|{}", rc.idx, out.evals));
        out
    }
}
