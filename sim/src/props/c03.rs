//! C03 — signing round trip (weak by construction: the fault-free control configuration of the
//! sign/read simulator, run on its own over a swarm of definitions, algorithms and settings).

use std::sync::Arc;

use c2pa::{Builder, BuilderIntent, Reader};
use serde_json::{json, Value};

use crate::{
    assets::{self, Fmt},
    defs,
    exec::{block_on, PendSource, SimAsyncSigner},
    harness::{Meta, Property, RunCtx, RunOut, Tier},
    report::{err_kind, Report},
    rng::hash_str,
    sdk,
    stream::{self, FaultPlan, SimStream},
};

pub struct C03;

impl Property for C03 {
    fn meta(&self) -> Meta {
        Meta {
            id: "C03",
            level: "exploration",
            rule: "one evaluation = Builder::sign (sync, or sign_async under the seeded executor) of a seeded manifest definition (0-3 user assertions with payload sizes straddling CBOR boundaries 23/24, 255/256, 65535/65536; claim v1/v2; 0-2 ingredients, one of them signed; title, generator) with a seeded algorithm (ed25519, es256/384/512, ps256/384/512) and hash algorithm (sha256/384/512), embedded / sidecar / compressed+box-hash, optionally as an update manifest over a signed parent, on each of 11 formats, source and destination both SimStreams with seeded benign chunking; then a read-back. Oracle: sign Ok, read-back Valid/Trusted, reported title / format / generator / user assertions (label+data) / ingredient titles+relationships equal what was supplied. Non-trivial = sign reached; distinct = (format, mode, alg, hash alg, claim version, assertion size classes)",
            assumptions: &["no fault dimension of its own: this is the control configuration of the simulator, i.e. seeded input sampling; said so in the level note"],
            real: &["c2pa Builder, Store, COSE signing with the fixture credentials, Reader"],
            stubbed: &["asset streams (SimStream, benign chunking)", "async signer future (seeded Pendings around the real signer)"],
            crash_prop: "C03",
        }
    }

    fn runs(&self, tier: Tier) -> u64 {
        match tier {
            Tier::Quick => 11 * 1200,
            Tier::Thorough => 11 * 6000,
        }
    }

    fn run(&self, rc: &mut RunCtx) -> RunOut {
        let mut out = RunOut::default();
        let fmt: Fmt = assets::ALL[(rc.idx % 11) as usize];
        let mut r = rc.rng.fork("w");
        let g = defs::generate(&mut r, true);
        let mode = r.below(10); // 0-5 embedded, 6-7 sidecar, 8 compressed/box, 9 update
        let is_async = r.chance(1, 3);
        // v1 claims cannot carry the ingredient assertions this SDK writes (v3): no ingredients there
        let n_ing_draw = r.below(3);
        let n_ing = if g.claim_version == 1 { 0 } else { n_ing_draw };
        let chunk = if r.chance(1, 2) { 0 } else { 1 + r.below(3000) as usize };
        let overlay = if mode == 8 { sdk::binding_overlay(sdk::Binding::Box) } else { json!({}) };
        let ctx = Arc::new(sdk::make_context(&overlay));
        let mut asset = assets::generate(fmt, &mut r);
        // one JPEG run in twelve: a foreign (non-C2PA) APP11 segment of 17-27 bytes in the source
        let short_app11 = fmt == Fmt::Jpeg && r.chance(1, 12);
        if short_app11 {
            asset = assets::insert_short_app11(&asset, &mut r);
        }
        let mode_name = ["embedded", "embedded", "embedded", "embedded", "embedded", "embedded", "sidecar", "sidecar", "compressed", "update"][mode as usize];
        let tag = format!("{}:{mode_name}:{}:{}:v{}{}", fmt.name(), g.alg, g.hash_alg.unwrap_or("default"), g.claim_version, if is_async { ":async" } else { "" });
        out.evals += 1;
        let mut ing_specs: Vec<(String, &'static str)> = Vec::new();
        let world = stream::new_world(FaultPlan { max_chunk: chunk, ..Default::default() }, Some(r.fork("c")));
        let res = sdk::guarded(|| -> Result<(Vec<u8>, Vec<u8>), String> {
            let mut source = asset.clone();
            let mut def = g.def.clone();
            if mode == 9 {
                // update manifest: sign a parent first, then an update over it (no hard binding,
                // only an allowed action)
                source = sdk::sign_plain(&ctx, &sdk::simple_definition("parent"), "ed25519", fmt.mime(), &asset).map_err(|e| format!("parent:{e}"))?;
                def = json!({"title": g.title, "claim_generator_info": [{"name": g.generator, "version": "1.0"}]});
            }
            let mut b = Builder::from_shared_context(&ctx).with_definition(def).map_err(|e| format!("def:{}", err_kind(&e)))?;
            if mode == 9 {
                b.set_intent(BuilderIntent::Update);
            } else {
                for i in 0..n_ing {
                    let rel = ["componentOf", "inputTo"][(i % 2) as usize];
                    let title = format!("ing{i}");
                    let bytes = if i == 0 {
                        sdk::sign_plain(&ctx, &sdk::simple_definition("ingredient"), "ed25519", fmt.mime(), &asset).map_err(|e| format!("ing:{e}"))?
                    } else {
                        asset.clone()
                    };
                    b.add_ingredient_from_stream(json!({"title": title, "relationship": rel}).to_string(), fmt.mime(), &mut std::io::Cursor::new(bytes))
                        .map_err(|e| format!("add_ing:{}", err_kind(&e)))?;
                    ing_specs.push((title, rel));
                }
            }
            if mode == 6 || mode == 7 {
                b.set_no_embed(true);
            }
            let mut src = SimStream::new(&world, 0, source);
            let mut dst = SimStream::new(&world, 1, Vec::new());
            let c2pa_data = if is_async {
                let s = SimAsyncSigner { inner: sdk::make_signer(g.alg), pend: PendSource::new(crate::rng::Rng::new(rc.idx), 3) };
                block_on(b.sign_async(&s, fmt.mime(), &mut src, &mut dst))
            } else {
                b.sign(sdk::make_signer(g.alg).as_ref(), fmt.mime(), &mut src, &mut dst)
            }
            .map_err(|e| format!("sign:{}", err_kind(&e)))?;
            Ok((c2pa_data, dst.into_data()))
        });
        out.steps += stream::stats(&world).ops;
        let (c2pa_data, signed) = match res {
            Err(p) => {
                out.violate(0, &format!("panic:{}", p.split('|').next().unwrap_or("?")), "C03 signing never panics", json!({"scenario": tag, "panic": p}));
                return out;
            }
            Ok(Err(e)) => {
                let step = e.split(':').next().unwrap_or("").to_string();
                let cls = if short_app11 { format!("sign-fails:jpg-with-foreign-short-app11:{}", e.rsplit(':').next().unwrap_or("")) } else { format!("sign-fails:{mode_name}:{}:{e}", fmt.name()) };
                out.violate(0, &cls, "C03 signing succeeds for supported assets and well-formed definitions",
                    json!({"scenario": tag, "error": e, "step": step}));
                return out;
            }
            Ok(Ok(x)) => x,
        };
        out.fault("benign_chunking");
        out.keys.push(hash_str(&tag));
        let rep = if mode == 6 || mode == 7 {
            Reader::from_shared_context(&ctx)
                .with_manifest_data_and_stream(&c2pa_data, fmt.mime(), std::io::Cursor::new(signed.clone()))
                .map(|r| Report::from_reader(&r))
                .map_err(|e| err_kind(&e))
        } else {
            sdk::read_plain(&ctx, fmt.mime(), &signed)
        };
        let rep = match rep {
            Ok(r) => r,
            Err(e) => {
                out.violate(0, &format!("read-back-fails:{mode_name}:{}:{e}", fmt.name()), "C03 reading the output back yields a Valid manifest", json!({"scenario": tag, "error": e}));
                return out;
            }
        };
        out.sample = Some(json!({"scenario": tag, "assertions": g.assertions.iter().map(|a| a.0.clone()).collect::<Vec<_>>(), "ingredients": ing_specs, "state": rep.brief(), "signed_len": signed.len()}));
        if rep.state != "Trusted" {
            out.violate(0, &format!("read-back-not-trusted:{mode_name}:{}:{}", fmt.name(), rep.failure_codes().join("+")),
                "C03 read-back is Valid (Trusted with the signer's root configured)", json!({"scenario": tag, "state": rep.brief()}));
            return out;
        }
        let Some(m) = rep.active_manifest() else {
            out.violate(0, "no-active-manifest", "C03 the active manifest is reported", json!({"scenario": tag}));
            return out;
        };
        let mut mism: Vec<String> = Vec::new();
        if m.get("title").and_then(|t| t.as_str()) != Some(&g.title) {
            mism.push(format!("title {:?}", m.get("title")));
        }
        let want_fmt = fmt.mime();
        if let Some(f) = m.get("format").and_then(|t| t.as_str()) {
            if f != want_fmt {
                mism.push(format!("format {f}"));
            }
        }
        let gen_ok = m.get("claim_generator_info").and_then(|a| a.as_array()).map(|a| a.iter().any(|x| x.get("name").and_then(|n| n.as_str()) == Some(&g.generator))).unwrap_or(false);
        if !gen_ok {
            mism.push("claim generator".into());
        }
        // the signature is reported with the algorithm that made it
        let want_alg = { let mut c = g.alg.trim_end_matches("-der").chars(); c.next().map(|f| f.to_ascii_uppercase().to_string() + c.as_str()).unwrap_or_default() };
        match m.get("signature_info").and_then(|s| s.get("alg")).and_then(|a| a.as_str()) {
            Some(a) if a.eq_ignore_ascii_case(&want_alg) => {}
            other => mism.push(format!("signature_info.alg {other:?} (signed with {})", g.alg)),
        }
        if mode != 9 {
            let n_reported = m.get("assertions").and_then(|a| a.as_array()).map(|a| a.iter().filter(|x| x.get("label").and_then(|l| l.as_str()).map(|l| l.starts_with("org.sim.")).unwrap_or(false)).count()).unwrap_or(0);
            if n_reported != g.assertions.len() {
                mism.push(format!("assertion count: {n_reported} user assertions reported, {} supplied", g.assertions.len()));
            }
            let reported: Vec<(String, Value)> = m.get("assertions").and_then(|a| a.as_array()).map(|a| a.iter().map(|x| (x.get("label").and_then(|l| l.as_str()).unwrap_or("").to_string(), x.get("data").cloned().unwrap_or(Value::Null))).collect()).unwrap_or_default();
            // assertions supplied under one label come back under that label, in the order supplied
            // (instance numbers are the SDK's own business: a label that is a prefix of an earlier
            // one gets a non-zero instance, which is only counted)
            let mut labels: Vec<&String> = g.assertions.iter().map(|a| &a.0).collect();
            labels.dedup();
            labels.sort();
            labels.dedup();
            for l in labels {
                let want: Vec<&Value> = g.assertions.iter().filter(|a| &a.0 == l).map(|a| &a.1).collect();
                let got: Vec<&Value> = reported.iter().filter(|a| &a.0 == l).map(|a| &a.1).collect();
                if got.len() < want.len() {
                    mism.push(format!("assertion {l} missing ({} of {} reported)", got.len(), want.len()));
                } else if got.len() > want.len() {
                    mism.push(format!("assertion {l} reported {} times, supplied {}", got.len(), want.len()));
                } else if got != want {
                    mism.push(format!("assertion {l} data differs"));
                }
            }
            if m.get("assertions").and_then(|a| a.as_array()).map(|a| a.iter().any(|x| x.get("instance").and_then(|i| i.as_u64()).unwrap_or(0) > 0 && g.assertions.iter().filter(|s| Some(s.0.as_str()) == x.get("label").and_then(|l| l.as_str())).count() == 1)).unwrap_or(false) {
                out.probe("nonzero-instance-for-a-label-supplied-once");
            }
            let extra: Vec<&String> = reported.iter().map(|x| &x.0).filter(|l| l.starts_with("org.sim.") && !g.assertions.iter().any(|(gl, _)| gl == *l)).collect();
            if !extra.is_empty() {
                mism.push(format!("unexpected assertions {extra:?}"));
            }
            let ings: Vec<(String, String)> = m.get("ingredients").and_then(|a| a.as_array()).map(|a| a.iter().map(|x| (x.get("title").and_then(|l| l.as_str()).unwrap_or("").to_string(), x.get("relationship").and_then(|l| l.as_str()).unwrap_or("").to_string())).collect()).unwrap_or_default();
            for (t, rel) in &ing_specs {
                if !ings.iter().any(|(it, ir)| it == t && ir == rel) {
                    mism.push(format!("ingredient {t}/{rel} not reported (got {ings:?})"));
                }
            }
            if ings.len() != ing_specs.len() {
                mism.push(format!("{} ingredients reported, {} supplied", ings.len(), ing_specs.len()));
            }
        }
        if !mism.is_empty() {
            let cls = mism[0].split_whitespace().next().unwrap_or("").to_string();
            out.violate(0, &format!("report-differs-from-definition:{cls}"), "C03 the active manifest carries exactly what was supplied",
                json!({"scenario": tag, "mismatches": mism, "reported": m.get("assertions").and_then(|a| a.as_array()).map(|a| a.iter().map(|x| format!("{}#{}", x.get("label").and_then(|l| l.as_str()).unwrap_or("?"), x.get("instance").map(|i| i.to_string()).unwrap_or("-".into()))).collect::<Vec<_>>())}));
        } else {
            out.probe("round-trip-ok");
        }
        out.digest = hash_str(&tag);
        out
    }
}
