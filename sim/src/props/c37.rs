//! C37 — revocation evidence is bound to the signing certificate.
//! OCSP peer (responses made with `openssl ocsp`, stapled or served over the simulated wire)
//! under a simulated clock.

use std::sync::{Arc, Mutex};

use c2pa::Builder;
use serde_json::json;

use crate::{
    assets::{self, Fmt},
    harness::{Meta, Property, RunCtx, RunOut, Tier},
    net::{self, Resp},
    ops,
    pki::{self, PkiSigner, Tsa, TsaLog},
    report::{err_kind, Report},
    rng::hash_str,
    sdk,
};

pub struct C37;

fn settings(ocsp_fetch: bool) -> serde_json::Value {
    json!({
        "trust": { "trust_anchors": String::from_utf8_lossy(&pki::read("root.pem")), "trust_config": sdk::TRUST_CONFIG },
        "verify": { "verify_after_sign": false, "ocsp_fetch": ocsp_fetch, "remote_manifest_fetch": false },
        "builder": { "thumbnail": { "enabled": false } }
    })
}

/// (file, says revoked for the signer, validly signed by issuer/delegate, about the signer, revocation before signing)
const RESPONSES: [(&str, bool, bool, bool, bool); 10] = [
    ("ocsp_good.der", false, true, true, false),
    ("ocsp_revoked.der", true, true, true, true),
    ("ocsp_revoked_late.der", true, true, true, false),
    ("ocsp_unknown.der", false, true, true, false),
    ("ocsp_other_good.der", false, true, false, false),
    ("ocsp_revoked_foreign.der", true, false, true, true),
    ("ocsp_good_short.der", false, true, true, false),
    // two SingleResponses in one response
    ("ocsp_multi_other_then_revoked.der", true, true, true, true),
    ("ocsp_multi_revoked_then_other.der", true, true, true, true),
    ("ocsp_multi_other_then_good.der", false, true, true, false),
];

/// C40 on the revocation paths: the synchronous and the asynchronous validation of the same
/// asset against the same peer agree on state and codes.
fn parity(out: &mut RunOut, sub: u64, tag: &str, a: &Result<Result<Report, String>, String>, b: &Result<Result<Report, String>, String>) {
    if let (Ok(a), Ok(b)) = (a, b) {
        let same = match (a, b) {
            (Ok(x), Ok(y)) => x.state == y.state && x.codes == y.codes,
            (Err(x), Err(y)) => x == y,
            _ => false,
        };
        if same {
            out.probe("sync-async-agree");
        } else {
            let kind = tag.split(':').take(2).collect::<Vec<_>>().join(":");
            out.violate(sub, &format!("@C40:sync-async-differ:ocsp:{kind}"), "C40 synchronous and asynchronous validation agree",
                json!({"scenario": tag, "sync": a.as_ref().map(|r| r.brief()).map_err(|e| e.clone()), "async": b.as_ref().map(|r| r.brief()).map_err(|e| e.clone())}));
        }
    }
}

impl Property for C37 {
    fn meta(&self) -> Meta {
        Meta {
            id: "C37",
            level: "exploration",
            rule: "one evaluation = sign with the pool's end-entity certificate (honest time-stamp token, so the signing time is known) with an OCSP response of the pool - good / revoked before signing / revoked after signing / unknown / about another certificate / revoked but signed by a responder of a foreign hierarchy / short-lived / two SingleResponses in one response with the signing certificate's (revoked or good) second or first - either stapled by the signer (Signer::ocsp_val) or served by a scripted responder over the simulated wire with verify.ocsp_fetch on (honest, 404, transport error, truncated body), then validate under a simulated clock (inside the response's validity, after it, before it). Oracle: a response that says revoked for the signing certificate, is signed by the issuer's delegated responder and whose revocation time is not after the signing time => never Valid/Trusted; a response about another certificate or signed by a foreign responder => state and failure-code multiset equal those of the same run with no OCSP data; a transport failure while fetching => same as no data; a cancel during FetchingOCSP => OperationCancelled (reported under C23). Distinct = (response kind, delivery, peer behaviour, clock)",
            assumptions: &["responses are pre-generated with `openssl ocsp` at pool generation time (thisUpdate fixed then); the validator's clock is simulated", "certificate-status assertions as a third carrier are not generated"],
            real: &["crypto::ocsp (response parsing, responder validation, status evaluation), ocsp::fetch, cose validation, ingredient/reader plumbing"],
            stubbed: &["OCSP responder and transport (scripted peer)", "wall clock", "TSA (scripted peer emitting real tokens)"],
            crash_prop: "C10",
        }
    }

    fn runs(&self, tier: Tier) -> u64 {
        match tier {
            Tier::Quick => 48 * 4,
            Tier::Thorough => 48 * 400,
        }
    }

    fn run(&self, rc: &mut RunCtx) -> RunOut {
        let mut out = RunOut::default();
        if !pki::pool().join("ocsp_good.der").exists() {
            out.harness_error = Some("PKI pool missing: run bin/gen-pki".into());
            return out;
        }
        let mut r = rc.rng.fork("w");
        let work = crate::harness::verif_dir().join("work").join(format!("c37-{}-{}-{}", rc.tier.name(), rc.seed, rc.idx));
        let fmt = *r.pick(&[Fmt::Jpeg, Fmt::Png, Fmt::Mp4]);
        let asset = assets::generate(fmt, &mut r);
        let gen_at: i64 = String::from_utf8_lossy(&pki::read("generated_at")).trim().parse().unwrap_or(1_790_000_000);
        let now = std::time::SystemTime::now().duration_since(std::time::UNIX_EPOCH).map(|d| d.as_secs() as i64).unwrap_or(gen_at);
        // sign once per delivery mode with an honest time-stamp
        let sign = |ocsp: Option<Vec<u8>>| -> Result<Vec<u8>, String> {
            let log = Arc::new(Mutex::new(TsaLog::default()));
            let signer = PkiSigner { inner: pki::ee_signer("ee_now")?, tsa: Tsa::Honest, ocsp, work: work.clone(), log, tsa_digest: "sha256" };
            let ctx = Arc::new(sdk::make_context(&settings(false)));
            let mut b = Builder::from_shared_context(&ctx).with_definition(sdk::simple_definition("c37")).map_err(|e| err_kind(&e))?;
            let mut d = std::io::Cursor::new(Vec::new());
            b.sign(&signer, fmt.mime(), &mut std::io::Cursor::new(asset.clone()), &mut d).map_err(|e| err_kind(&e))?;
            Ok(d.into_inner())
        };
        c2pa::verif::set_clock(Some(now));
        let plain = sign(None);
        c2pa::verif::set_clock(None);
        let plain = match plain {
            Ok(p) => p,
            Err(e) => {
                out.harness_error = Some(format!("sign without OCSP: {e}"));
                return out;
            }
        };
        let per = 5;
        for c in 0..per {
            let sub = c as u64;
            let (file, says_revoked, valid_signer, about_signer, revoked_before) = RESPONSES[r.below(RESPONSES.len() as u64) as usize];
            let delivery = r.below(3); // 0 stapled, 1 fetched, 2 fetched + misbehaving peer
            let peer = r.below(4);
            let clock = *r.pick(&[now + 3600, now + 86_400 * 30, now + 86_400 * 365 * 12, gen_at - 86_400 * 30]);
            let cancel = c == 4 && r.chance(1, 2);
            if !rc.want_sub(sub) {
                continue;
            }
            let resp = pki::read(file);
            out.evals += 1;
            // baseline: the same asset/clock with no OCSP data at all
            c2pa::verif::set_clock(Some(clock));
            let ctx0 = Arc::new(sdk::make_context(&settings(false)));
            let base = sdk::read_plain(&ctx0, fmt.mime(), &plain);
            c2pa::verif::set_clock(None);
            let Ok(base) = base else {
                out.probe("baseline-read-err");
                continue;
            };
            let kind = file.trim_end_matches(".der").trim_start_matches("ocsp_");
            let dname = ["stapled", "fetched", "fetched-bad-peer"][delivery as usize];
            let tag = format!("{kind}:{dname}:clock{:+}d", (clock - now) / 86_400);
            let got: Result<Report, String>;
            let mut wire = 0usize;
            if delivery == 0 {
                c2pa::verif::set_clock(Some(now));
                let signed = sign(Some(resp.clone()));
                c2pa::verif::set_clock(None);
                let signed = match signed {
                    Ok(s) => s,
                    Err(e) => {
                        out.probe(&format!("sign-with-staple-refused:{kind}:{e}"));
                        continue;
                    }
                };
                c2pa::verif::set_clock(Some(clock));
                let r2 = sdk::guarded(|| sdk::read_plain(&ctx0, fmt.mime(), &signed));
                let r3 = sdk::guarded(|| sdk::read_plain_async(&ctx0, fmt.mime(), &signed));
                c2pa::verif::set_clock(None);
                parity(&mut out, sub, &tag, &r2, &r3);
                got = match r2 {
                    Ok(g) => g,
                    Err(p) => {
                        out.violate(sub, &format!("panic:{}", p.split('|').next().unwrap_or("?")), "G1 no panic", json!({"scenario": tag, "panic": p}));
                        continue;
                    }
                };
                out.fault("stapled_ocsp");
            } else {
                let resp2 = resp.clone();
                let bad = delivery == 2;
                net::install(Box::new(move |req, _| {
                    if !req.uri.contains("ocsp.sim.example") {
                        return Resp::status(404);
                    }
                    let mut x = Resp::ok(resp2.clone());
                    x.headers.push(("content-type".into(), "application/ocsp-response".into()));
                    if bad {
                        match peer {
                            0 => x = Resp::status(404),
                            1 => x.transport_error = true,
                            2 => x.body.truncate(resp2.len() / 2),
                            _ => x.body_fail_after = Some(resp2.len() / 3),
                        }
                    }
                    x
                }));
                let ctx1 = ops::make_ctx(&settings(true));
                ops::cb_reset(None, None);
                if cancel {
                    // find the FetchingOCSP callback: cancel at every index until one hits that phase
                    ops::CB.with(|c| c.borrow_mut().cancel_at = None);
                }
                c2pa::verif::set_clock(Some(clock));
                let r2 = sdk::guarded(|| match c2pa::Reader::from_shared_context(&ctx1).with_stream(fmt.mime(), std::io::Cursor::new(plain.clone())) {
                    Ok(r) => Ok(Report::from_reader(&r)),
                    Err(e) => Err(err_kind(&e)),
                });
                let log = ops::cb_take_log();
                wire = net::log_len();
                // the asynchronous form against the same peer (C40)
                let ctx2 = Arc::new(sdk::make_context(&settings(true)));
                let r3 = sdk::guarded(|| sdk::read_plain_async(&ctx2, fmt.mime(), &plain));
                c2pa::verif::set_clock(None);
                parity(&mut out, sub, &tag, &r2, &r3);
                if cancel {
                    if let Some(k) = log.iter().position(|l| l.0 == "FetchingOCSP") {
                        // re-run cancelling exactly there
                        ops::cb_reset(None, Some(k + 1));
                        c2pa::verif::set_clock(Some(clock));
                        let rc2 = sdk::guarded(|| match c2pa::Reader::from_shared_context(&ops::make_ctx(&settings(true))).with_stream(fmt.mime(), std::io::Cursor::new(plain.clone())) {
                            Ok(r) => Ok(Report::from_reader(&r).brief()),
                            Err(e) => Err(err_kind(&e)),
                        });
                        c2pa::verif::set_clock(None);
                        ops::cb_reset(None, None);
                        out.evals += 1;
                        out.fault("cancel_at_FetchingOCSP");
                        if let Ok(x) = rc2 {
                            if x != Err("OperationCancelled".to_string()) {
                                out.violate(sub, "@C23:cancel-swallowed:read:FetchingOCSP", "C23 cancel at invocation k => Err(OperationCancelled)",
                                    json!({"scenario": tag, "k": k + 1, "observed": format!("{x:?}")}));
                            }
                        }
                    } else {
                        out.probe("no-FetchingOCSP-callback");
                    }
                }
                net::uninstall();
                got = match r2 {
                    Ok(g) => g,
                    Err(p) => {
                        out.violate(sub, &format!("panic:{}", p.split('|').next().unwrap_or("?")), "G1 no panic", json!({"scenario": tag, "panic": p}));
                        continue;
                    }
                };
                out.fault(if bad { "ocsp_fetch_failing_peer" } else { "ocsp_fetched" });
                out.probe_n("ocsp_requests_on_wire", wire as u64);
            }
            out.keys.push(hash_str(&tag));
            out.sim_time_s += (clock - gen_at).unsigned_abs();
            let got = match got {
                Ok(g) => g,
                Err(e) => {
                    out.probe(&format!("read-err:{e}"));
                    continue;
                }
            };
            let detail = json!({"scenario": tag, "response": file, "state": got.brief(), "state_without_ocsp": base.brief(), "requests_on_wire": wire,
                "ocsp_codes": got.codes.iter().filter(|c| c.contains("ocsp") || c.contains("revoked") || c.contains("Revoked")).map(|c| c.split('|').take(2).collect::<Vec<_>>().join("|")).collect::<Vec<_>>()});
            let delivered = delivery == 0 || (delivery == 1 && wire > 0);
            // (1) a valid "revoked" for the signer, revocation not after signing => never Valid
            if delivered && says_revoked && valid_signer && about_signer && revoked_before && got.is_ok_state() {
                out.violate(sub, &format!("revoked-certificate-accepted:{dname}"), "C37 a manifest whose OCSP response reports the signing certificate revoked is never Valid or Trusted", detail.clone());
            }
            // (2) foreign / not validly signed => no change of verdict
            let fails = |r: &Report| { let mut f = r.failure_codes(); f.sort(); f };
            if (!about_signer || !valid_signer) && (got.state != base.state || fails(&got) != fails(&base)) {
                out.violate(sub, &format!("irrelevant-ocsp-changes-verdict:{kind}:{dname}"), "C37 OCSP responses that do not concern the signing certificate, or are not validly signed, never change the verdict", detail.clone());
            }
            // (3) transport failure => same as no data
            if delivery == 2 && (got.state != base.state || fails(&got) != fails(&base)) {
                out.violate(sub, &format!("failed-ocsp-fetch-changes-verdict:peer{peer}"), "C37 a failed fetch is the same as no OCSP data", detail.clone());
            }
            out.probe(&format!("outcome:{kind}:{dname}:{}", got.state));
            if out.sample.is_none() {
                out.sample = Some(detail);
            }
        }
        let _ = std::fs::remove_dir_all(&work);
        out.digest = hash_str(&format!("{}|{:?}", rc.idx, out.probes.keys().collect::<Vec<_>>()));
        out
    }
}
