//! C11 — the reader's verdict does not depend on a wrong format hint.
//! Schedule dimension: the length of the first read (sniffing does a single read) and benign
//! chunking afterwards.

use std::sync::Arc;

use serde_json::json;

use crate::{
    assets::{self, Fmt},
    harness::{Meta, Property, RunCtx, RunOut, Tier},
    ops,
    report::Report,
    rng::hash_str,
    sdk,
    stream::{self, FaultPlan, SimStream},
};

pub struct C11;

fn read_with(ctx: &Arc<c2pa::Context>, hint: &str, bytes: &[u8], plan: FaultPlan, rng: crate::rng::Rng) -> Result<Report, String> {
    let world = stream::new_world(plan, Some(rng));
    let s = SimStream::new(&world, 0, bytes.to_vec());
    match c2pa::Reader::from_shared_context(ctx).with_stream(hint, s) {
        Ok(r) => Ok(Report::from_reader(&r)),
        Err(e) => Err(crate::report::err_kind(&e)),
    }
}

impl Property for C11 {
    fn meta(&self) -> Meta {
        Meta {
            id: "C11",
            level: "exploration",
            rule: "one evaluation = Reader::with_stream on a signed tiny asset whose leading bytes identify its container (JPEG, PNG, GIF, RIFF/WAV, RIFF/WebP, TIFF in both byte orders, JPEG XL, BMFF, FLAC, MP3 with and without a leading ID3 tag - 10 of the 11 formats; SVG has no magic) with a format hint taken from EVERY string in Reader::supported_mime_types() plus unknown strings, under a first-read length of 1..16 bytes or full and seeded benign chunking afterwards. Oracle: report and validation codes equal those obtained with the correct hint and full reads. Non-trivial = hint differs from the asset's format or the first read is short; distinct = (format, hint, first-read length, chunking)",
            assumptions: &["streams are legal streams (never Ok(0) before EOF); a 1-byte first read is legal"],
            real: &["c2pa Reader incl. format sniffing (jumbf_io::format_from_stream)"],
            stubbed: &["asset stream (SimStream)"],
            crash_prop: "C10",
        }
    }

    fn runs(&self, tier: Tier) -> u64 {
        match tier {
            Tier::Quick => 10 * 4 * 8,
            Tier::Thorough => 10 * 4 * 200,
        }
    }

    fn exhaustive(&self, _tier: Tier) -> bool {
        false
    }

    fn run(&self, rc: &mut RunCtx) -> RunOut {
        let mut out = RunOut::default();
        let fmts: Vec<Fmt> = assets::ALL.iter().copied().filter(|f| *f != Fmt::Svg).collect();
        let fmt = fmts[(rc.idx % 10) as usize];
        let shard = (rc.idx / 10) % 4;
        let variant = rc.idx / 40;
        let ctx = Arc::new(sdk::make_context(&json!({})));
        // every spelling of the container's magic the generator can produce, in turn: both TIFF
        // byte orders, MP3 with and without a leading ID3 tag
        let wanted: &[&[u8]] = match fmt {
            Fmt::Tiff => &[b"II*\0", b"MM\0*"],
            Fmt::Mp3 => &[b"ID3", b"\xff"],
            _ => &[b""],
        };
        let want = wanted[(variant as usize) % wanted.len()];
        let mut asset = Vec::new();
        for attempt in 0..64 {
            let mut ar = crate::rng::Rng::new(hash_str(&format!("{}-{}-{variant}-{attempt}-c11", rc.seed, fmt.name())));
            asset = assets::generate(fmt, &mut ar);
            if asset.starts_with(want) {
                break;
            }
        }
        c2pa::verif::set_random_seed(Some(hash_str(&format!("c11-{}-{}-{variant}", rc.seed, fmt.name()))));
        let signed = match sdk::sign_plain(&ctx, &sdk::simple_definition("c11"), "ed25519", fmt.mime(), &asset) {
            Ok(s) => s,
            Err(e) => {
                out.harness_error = Some(format!("sign: {e}"));
                return out;
            }
        };
        let signed = rc.artefact("signed", || signed.clone());
        let reference = match sdk::read_plain(&ctx, fmt.mime(), &signed) {
            Ok(r) if r.is_ok_state() => r,
            other => {
                out.harness_error = Some(format!("reference read: {:?}", other.map(|r| r.brief())));
                return out;
            }
        };
        let mut hints: Vec<String> = c2pa::Reader::supported_mime_types();
        hints.sort();
        hints.extend(["application/octet-stream".to_string(), "xyz".to_string(), "".to_string(), "image/unknown".to_string()]);
        let firsts: Vec<usize> = (0..=16).collect(); // 0 = unconstrained
        let mut n = 0u64;
        let _ = ops::ALL_OPS;
        for (hi, hint) in hints.iter().enumerate() {
            for fr in &firsts {
                n += 1;
                let chunk = if (hi + fr) % 3 == 0 { 1 + rc.rng.below(64) as usize } else { 0 };
                let crng = rc.rng.fork("c");
                if n % 4 != shard {
                    continue;
                }
                let sub = (hi * 100 + fr) as u64;
                if !rc.want_sub(sub) {
                    continue;
                }
                rc.mark(sub);
                out.evals += 1;
                let plan = FaultPlan { first_read_len: *fr, max_chunk: chunk, ..Default::default() };
                let got = match sdk::guarded(|| read_with(&ctx, hint, &signed, plan, crng)) {
                    Ok(g) => g,
                    Err(p) => {
                        out.violate(sub, &format!("panic:{}", p.split('|').next().unwrap_or("?")), "G1 no panic", json!({"format": fmt.name(), "hint": hint, "first_read": fr, "panic": p}));
                        continue;
                    }
                };
                let same_family = hint == fmt.mime();
                if !same_family || *fr != 0 {
                    out.keys.push(hash_str(&format!("{}|{hint}|{fr}|{chunk}", fmt.name())));
                }
                out.fault(if *fr == 0 { "full_first_read" } else { "short_first_read" });
                let ok = match &got {
                    Ok(r) => r.json == reference.json && r.codes == reference.codes && r.state == reference.state,
                    Err(_) => false,
                };
                if !ok {
                    let cls = if *fr != 0 && *fr < 16 { "short-first-read" } else { "full-first-read" };
                    out.violate(sub, &format!("hint-changes-result:{}:{cls}", fmt.name()),
                        "C11 same report whatever the hint when the leading bytes identify the container",
                        json!({"format": fmt.name(), "hint": hint, "first_read_len": fr, "chunk": chunk,
                               "reference": reference.brief(), "observed": got.as_ref().map(|r| r.brief()).map_err(|e| e.clone())}));
                }
            }
        }
        if shard == 0 {
            out.sample = Some(json!({"format": fmt.name(), "hints": hints.len(), "first_read_lengths": firsts, "reference": reference.brief()}));
        }
        out.digest = hash_str(&format!("{}|{}", fmt.name(), out.evals));
        out
    }
}
