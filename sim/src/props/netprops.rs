//! C26 / C27 — host allow-list and redirect policy, decided on what reaches the simulated wire
//! underneath the REAL default resolver stack (Context::resolver / resolver_async).

use std::sync::{Arc, Mutex};

use c2pa::http::{AsyncHttpResolver, SyncHttpResolver};
use serde_json::json;

use crate::{
    exec::block_on,
    harness::{Meta, Property, RunCtx, RunOut, Tier},
    net::{self, ReqRec, Resp},
    rng::{hash_str, Rng},
    sdk,
};

pub struct C26;
pub struct C27;

#[derive(Clone, Copy, PartialEq, Debug)]
enum M {
    Yes,
    No,
    Unsure,
}

/// Independent matcher written from the HostPattern documentation; Unsure where it is silent.
fn pattern_matches(pat: &str, url_s: &str) -> M {
    let Ok(u) = url::Url::parse(url_s) else { return M::Unsure };
    let Some(host) = u.host_str() else { return M::Unsure };
    let p = pat.to_ascii_lowercase();
    let (pscheme, rest) = if let Some(r) = p.strip_prefix("https://") {
        (Some("https"), r)
    } else if let Some(r) = p.strip_prefix("http://") {
        (Some("http"), r)
    } else {
        (None, p.as_str())
    };
    if rest.contains('[') || rest.matches(':').count() > 1 {
        return M::Unsure; // IPv6 literal patterns: documentation silent
    }
    let (phost, pport) = match rest.rsplit_once(':') {
        Some((h, po)) => (h, Some(po)),
        None => (rest, None),
    };
    if phost.is_empty() {
        return M::Unsure;
    }
    let host_l = host.to_ascii_lowercase();
    let host_ok = if let Some(suffix) = phost.strip_prefix("*.") {
        if host_l.ends_with(&format!(".{suffix}")) && host_l.len() > suffix.len() + 1 {
            M::Yes
        } else if host_l.trim_end_matches('.').ends_with(&format!(".{suffix}")) {
            M::Unsure // trailing dot
        } else {
            M::No
        }
    } else if host_l == phost {
        M::Yes
    } else if host_l.trim_end_matches('.') == phost.trim_end_matches('.') {
        M::Unsure
    } else {
        M::No
    };
    if host_ok == M::No {
        return M::No;
    }
    if let Some(ps) = pscheme {
        if u.scheme() != ps {
            return M::No;
        }
    }
    // port: a pattern port requires the same explicit port; everything else is left open
    let port_ok = match (pport, u.port()) {
        (Some(pp), Some(up)) => {
            if pp == up.to_string() {
                M::Yes
            } else {
                M::No
            }
        }
        (Some(pp), None) => {
            // url crate drops default ports: explicit default port in the URI looks absent here
            let default = if u.scheme() == "https" { "443" } else { "80" };
            if pp == default {
                M::Unsure
            } else {
                M::No
            }
        }
        (None, Some(_)) => M::Unsure,
        (None, None) => M::Yes,
    };
    match (host_ok, port_ok) {
        (_, M::No) => M::No,
        (M::Yes, M::Yes) => M::Yes,
        _ => M::Unsure,
    }
}

fn allowed(pats: &[String], url_s: &str) -> M {
    let mut any_unsure = false;
    for p in pats {
        match pattern_matches(p, url_s) {
            M::Yes => return M::Yes,
            M::Unsure => any_unsure = true,
            M::No => {}
        }
    }
    if any_unsure {
        M::Unsure
    } else {
        M::No
    }
}

fn gen_pattern(r: &mut Rng, hosts: &[&str]) -> String {
    let h = r.pick(hosts).trim_end_matches('.').to_string();
    let base = match r.below(5) {
        0 => {
            // wildcard over the parent domain
            match h.split_once('.') {
                Some((_, rest)) if rest.contains('.') => format!("*.{rest}"),
                _ => h.clone(),
            }
        }
        1 => h.to_ascii_uppercase(),
        _ => h.clone(),
    };
    let scheme = *r.pick(&["", "", "https://", "http://"]);
    let port = *r.pick(&["", "", "", ":8080", ":443"]);
    format!("{scheme}{base}{port}")
}

fn location(r: &mut Rng, hosts: &[&str]) -> String {
    let h = *r.pick(hosts);
    match r.below(14) {
        0 => format!("/{}", r.ident(1, 6)),
        1 => r.ident(1, 6),
        2 => format!("//{h}/{}", r.ident(1, 4)),
        // spellings the URL parser resolves to a new authority without a literal "//"
        3 => format!("/\\{h}/{}", r.ident(1, 4)),
        4 => format!("\\\\{h}/{}", r.ident(1, 4)),
        5 => format!("\\/{h}/{}", r.ident(1, 4)),
        6 => {
            let sch = *r.pick(&["http", "https"]);
            match r.below(4) {
                0 => format!("{sch}:\\\\{h}/{}", r.ident(1, 4)),
                1 => format!("{sch}:/\\{h}/{}", r.ident(1, 4)),
                2 => format!("{sch}:{h}/{}", r.ident(1, 4)),
                _ => format!("{sch}:/{h}/{}", r.ident(1, 4)),
            }
        }
        7 => format!("///{h}/{}", r.ident(1, 4)),
        8 => format!(" \t//{h}/{}", r.ident(1, 4)),
        _ => net::gen_url(r, h),
    }
}

struct Outcome {
    result: Result<u16, String>,
    log: Vec<ReqRec>,
}

fn drive(settings: serde_json::Value, first: &str, chain: Vec<String>, headers: &[(String, String)], is_async: bool, final_status: u16) -> Result<Outcome, String> {
    let ctx = Arc::new(sdk::make_context(&settings));
    let chain = Arc::new(Mutex::new(chain));
    let ch = chain.clone();
    net::install(Box::new(move |_req, n| {
        let c = ch.lock().unwrap();
        if n < c.len() {
            Resp::redirect([301u16, 302, 303, 307, 308][n % 5], &c[n])
        } else {
            let mut r = Resp::status(final_status);
            r.body = b"ok".to_vec();
            r
        }
    }));
    let mut b = http::Request::get(first);
    for (k, v) in headers {
        b = b.header(k.as_str(), v.as_str());
    }
    let req = match b.body(Vec::new()) {
        Ok(r) => r,
        Err(e) => {
            net::uninstall();
            return Err(format!("request not constructible: {e}"));
        }
    };
    let res = if is_async {
        let r = ctx.resolver_async();
        block_on(r.http_resolve_async(req))
    } else {
        ctx.resolver().http_resolve(req)
    };
    let log = net::uninstall();
    Ok(Outcome {
        result: match res {
            Ok(r) => Ok(r.status().as_u16()),
            Err(e) => Err(crate::report::err_kind(&e)),
        },
        log,
    })
}

const ALL_HOSTS: [&str; 12] = [
    "example.com", "api.example.com", "cdn.assets.example.org", "assets.example.org", "evil.test", "example.com.evil.test",
    "fakeexample.com", "192.0.2.1", "8.8.8.8", "sub.api.example.com", "Example.COM", "example.org",
];

impl Property for C26 {
    fn meta(&self) -> Meta {
        Meta {
            id: "C26",
            level: "exploration",
            rule: "one evaluation = one request (sync or async) through the REAL default resolver stack of a Context configured with core.allowed_network_hosts (1-5 seeded patterns: exact host, *.suffix, with/without scheme and port, IP literal, upper case) - RedirectResolver<RestrictedResolver<GenericResolver>> with the simulated wire underneath (hook H3) - for a seeded URI (case variants, trailing dot, userinfo, explicit default ports, look-alike hosts), answered by scripted hosts with a redirect chain of 0-12 hops whose Locations come from the same grammar (absolute, scheme-relative, path-relative). Oracle, on the wire log after the call: every request that reached the wire matches some pattern under an independent matcher written from the documented rules (undocumented corners count as allowed); a first URI that certainly matches nothing => Err(UriDisallowed) and an empty wire. Non-trivial = at least one request or refusal judged with certainty; distinct = (patterns, first URI, chain)",
            assumptions: &["the matcher answers 'unsure' (= allowed) for trailing dots, IPv6 patterns, explicit default ports and pattern-without-port vs URI-with-port", "end-to-end operations (remote manifest / OCSP / TSA fetches under an allow-list) are exercised by C28's workload"],
            real: &["Context::resolver()/resolver_async() default stack: RedirectResolver, RestrictedResolver, HostPattern"],
            stubbed: &["HTTP client below Sync/AsyncGenericResolver (SimNet)"],
            crash_prop: "C10",
        }
    }

    fn runs(&self, tier: Tier) -> u64 {
        match tier {
            Tier::Quick => 64 * 32,
            Tier::Thorough => 64 * 400,
        }
    }

    fn run(&self, rc: &mut RunCtx) -> RunOut {
        let mut out = RunOut::default();
        let per = 400;
        for c in 0..per {
            let mut r = rc.rng.fork("case");
            let sub = c as u64;
            if !rc.want_sub(sub) {
                continue;
            }
            let np = r.usize(1, 5);
            let mut pats: Vec<String> = (0..np).map(|_| gen_pattern(&mut r, &ALL_HOSTS)).collect();
            let fh: &str = *r.pick(&ALL_HOSTS[..]);
            let first = net::gen_url(&mut r, fh);
            // in half of the cases one pattern is aimed at the first host, so that chains get going
            if r.chance(1, 2) {
                pats.push(gen_pattern(&mut r, &[fh]));
            }
            let hops = if r.chance(1, 3) { 0 } else { r.usize(1, 12) };
            let chain: Vec<String> = (0..hops).map(|_| location(&mut r, &ALL_HOSTS)).collect();
            let is_async = r.chance(1, 2);
            let settings = json!({"core": {"allowed_network_hosts": pats, "allow_redirects": true}});
            out.evals += 1;
            let o = match sdk::guarded(|| drive(settings, &first, chain.clone(), &[], is_async, 200)) {
                Err(p) => {
                    out.violate(sub, &format!("panic:{}", p.split('|').next().unwrap_or("?")), "G1 no panic", json!({"patterns": pats, "first": first, "chain": chain, "panic": p}));
                    continue;
                }
                Ok(Err(_)) => {
                    out.probe("request-not-constructible");
                    continue;
                }
                Ok(Ok(o)) => o,
            };
            out.probe_n("requests_on_wire", o.log.len() as u64);
            let first_verdict = allowed(&pats, &first);
            let mut judged = false;
            for (i, rq) in o.log.iter().enumerate() {
                match allowed(&pats, &rq.uri) {
                    M::No => {
                        judged = true;
                        let cls = if i == 0 { "initial-request" } else { "redirect-hop" };
                        // which rule was bypassed?
                        let why = pats.iter().map(|p| format!("{p}:{:?}", pattern_matches(p, &rq.uri))).collect::<Vec<_>>();
                        out.violate(sub, &format!("request-outside-allow-list:{cls}"), "C26 no request reaches the transport unless its URI matches a configured pattern",
                            json!({"patterns": pats, "first": first, "chain": chain, "hop": i, "on_wire": rq.uri, "matcher": why, "async": is_async}));
                    }
                    M::Yes => judged = true,
                    M::Unsure => out.probe("matcher-unsure"),
                }
            }
            if first_verdict == M::No {
                judged = true;
                out.fault("disallowed_initial_uri");
                if !o.log.is_empty() || o.result != Err("UriDisallowed".to_string()) {
                    if o.log.is_empty() {
                        out.violate(sub, "disallowed-uri-wrong-error", "C26 everything else is refused with a URI-disallowed error",
                            json!({"patterns": pats, "first": first, "result": format!("{:?}", o.result)}));
                    }
                }
            }
            if !chain.is_empty() {
                out.fault("redirect_chain");
            }
            if judged {
                out.keys.push(hash_str(&format!("{pats:?}|{first}|{chain:?}")));
            }
            if c == 0 {
                out.sample = Some(json!({"patterns": pats, "first": first, "chain": chain, "async": is_async,
                    "wire": o.log.iter().map(|r| r.uri.clone()).collect::<Vec<_>>(), "result": format!("{:?}", o.result)}));
            }
        }
        out.digest = hash_str(&format!("{}|{}", rc.idx, out.evals));
        out
    }
}

impl Property for C27 {
    fn meta(&self) -> Meta {
        Meta {
            id: "C27",
            level: "exploration",
            rule: "one evaluation = one request (sync or async, GET with seeded headers incl. Authorization / Cookie / Proxy-Authorization / Host) through the REAL default resolver stack (core.allow_redirects on or off, no allow-list) with the simulated wire underneath, answered by a scripted redirect chain of 0-14 hops (301/302/303/307/308) whose Locations are drawn from public hosts and from the address classes of the statement in many spellings (localhost variants, dotted / integer / hex / octal / short IPv4, bracketed IPv6, IPv4-mapped IPv6, trailing dots, userinfo tricks) and written as absolute URLs, //authority, path-relative references, and the spellings the URL parser resolves to a new authority without a literal // (/\\host, \\\\host, \\/host, http:\\\\host, http:/\\host, other-scheme:host, ///host, leading blank or tab); one first request in ten goes to an internal host itself. Oracle on the wire log: no request with hop index >= 1 targets a host the simulator's own classifier (built on the url crate's host parser) puts in a listed class; at most 11 requests per call; with redirects disabled exactly one request and Err(RedirectDisallowed) on a 3xx with Location; no hop >= 1 carries one of the four headers and every other original header is still present. IPv4-compatible / NAT64 / other special ranges not listed by the statement are only counted. Distinct = (chain, headers, mode)",
            assumptions: &["a Location the url crate cannot parse demands nothing", "DNS names that resolve to internal addresses are out of scope (string-level policy)"],
            real: &["RedirectResolver incl. host_is_non_global, build_redirected_request, MAX_REDIRECTS"],
            stubbed: &["HTTP client below Sync/AsyncGenericResolver (SimNet)"],
            crash_prop: "C10",
        }
    }

    fn runs(&self, tier: Tier) -> u64 {
        match tier {
            Tier::Quick => 64 * 32,
            Tier::Thorough => 64 * 400,
        }
    }

    fn run(&self, rc: &mut RunCtx) -> RunOut {
        let mut out = RunOut::default();
        let per = 400;
        let mut hosts: Vec<&str> = Vec::new();
        hosts.extend(net::PUBLIC_HOSTS);
        hosts.extend(net::PUBLIC_HOSTS);
        hosts.extend(net::INTERNAL_HOSTS);
        hosts.extend(net::UNLISTED_HOSTS);
        for c in 0..per {
            let mut r = rc.rng.fork("case");
            let sub = c as u64;
            if !rc.want_sub(sub) {
                continue;
            }
            // now and then the first request itself goes to an internal host (allowed); what it
            // redirects to is a redirect target like any other
            let fh: &str = if r.chance(1, 10) { *r.pick(&net::INTERNAL_HOSTS[..]) } else { *r.pick(&net::PUBLIC_HOSTS[..]) };
            let first = net::gen_url(&mut r, fh);
            let hops = r.usize(0, 14);
            // mostly public chains with one internal hop somewhere, so that chains get far
            let bad_at = r.below(hops.max(1) as u64 + 3) as usize;
            let chain: Vec<String> = (0..hops)
                .map(|i| if i == bad_at || r.chance(1, 12) { location(&mut r, &hosts) } else { location(&mut r, &net::PUBLIC_HOSTS) })
                .collect();
            let allow = r.chance(3, 4);
            let is_async = r.chance(1, 2);
            let mut headers: Vec<(String, String)> = vec![("accept".into(), "application/c2pa".into()), ("x-sim".into(), format!("{c}"))];
            for (h, v) in [("authorization", "Bearer secret"), ("cookie", "sid=secret"), ("proxy-authorization", "Basic c2VjcmV0"), ("host", "original.example")] {
                if r.chance(1, 2) {
                    headers.push((h.into(), v.into()));
                }
            }
            let settings = json!({"core": {"allow_redirects": allow}});
            out.evals += 1;
            let o = match sdk::guarded(|| drive(settings, &first, chain.clone(), &headers, is_async, 200)) {
                Err(p) => {
                    out.violate(sub, &format!("panic:{}", p.split('|').next().unwrap_or("?")), "G1 no panic", json!({"first": first, "chain": chain, "panic": p}));
                    continue;
                }
                Ok(Err(_)) => {
                    out.probe("request-not-constructible");
                    continue;
                }
                Ok(Ok(o)) => o,
            };
            out.keys.push(hash_str(&format!("{first}|{chain:?}|{allow}|{headers:?}")));
            out.probe_n("requests_on_wire", o.log.len() as u64);
            if !chain.is_empty() {
                out.fault("redirect_chain");
            }
            let detail = |extra: serde_json::Value| json!({"first": first, "chain": chain, "allow_redirects": allow, "async": is_async,
                "wire": o.log.iter().map(|r| r.uri.clone()).collect::<Vec<_>>(), "result": format!("{:?}", o.result), "more": extra});
            if !allow {
                if o.log.len() != 1 {
                    out.violate(sub, "redirect-followed-while-disabled", "C27 refuses every redirect when redirects are disabled", detail(json!(null)));
                } else if !chain.is_empty() && o.result != Err("RedirectDisallowed".to_string()) {
                    out.violate(sub, "redirect-disabled-wrong-result", "C27 refuses every redirect when redirects are disabled", detail(json!(null)));
                }
                continue;
            }
            if o.log.len() > 11 {
                out.violate(sub, "more-than-ten-redirects", "C27 never follows more than ten redirects", detail(json!({"requests": o.log.len()})));
            }
            if o.log.len() == 11 {
                out.probe("redirect_limit_reached");
            }
            for (i, rq) in o.log.iter().enumerate().skip(1) {
                match net::is_internal(&rq.uri) {
                    Some(true) => {
                        out.fault("internal_redirect_target");
                        let u = url::Url::parse(&rq.uri).ok();
                        let cls = match u.as_ref().and_then(|u| u.host()) {
                            Some(url::Host::Domain(_)) => "name",
                            Some(url::Host::Ipv4(_)) => "ipv4",
                            Some(url::Host::Ipv6(_)) => "ipv6",
                            None => "?",
                        };
                        out.violate(sub, &format!("redirect-reaches-internal-address:{cls}"), "C27 never sends a redirected request to an internal address",
                            detail(json!({"hop": i, "target": rq.uri, "location_header": chain.get(i - 1)})));
                    }
                    Some(false) => {
                        if net::UNLISTED_HOSTS.iter().any(|h| rq.uri.contains(h.trim_matches(|c| c == '[' || c == ']'))) {
                            out.probe("delivered-to-unlisted-special-range");
                        }
                    }
                    None => out.probe("unparseable-target"),
                }
                for h in ["authorization", "cookie", "proxy-authorization", "host"] {
                    if rq.headers.iter().any(|(k, _)| k == h) {
                        out.violate(sub, &format!("credential-header-forwarded:{h}"), "C27 never forwards Authorization, Cookie, Proxy-Authorization or Host to a redirect target",
                            detail(json!({"hop": i, "header": h})));
                    }
                }
                for (k, v) in &headers {
                    if ["authorization", "cookie", "proxy-authorization", "host"].contains(&k.as_str()) {
                        continue;
                    }
                    if !rq.headers.iter().any(|(k2, v2)| k2 == k && v2 == v) {
                        out.violate(sub, &format!("innocuous-header-dropped:{k}"), "C27 other headers are preserved on redirect hops", detail(json!({"hop": i, "header": k})));
                    }
                }
            }
            // a chain whose next Location is internal must stop there: counted when it did
            if let Err(e) = &o.result {
                out.probe(&format!("result:{e}"));
            }
            if c == 0 {
                out.sample = Some(detail(json!({"headers": headers})));
            }
        }
        out.digest = hash_str(&format!("{}|{}", rc.idx, out.evals));
        out
    }
}
