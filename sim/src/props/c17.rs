//! C17 — BMFF mdat hashing is independent of how the payload is chunked.
//! Schedule = how the caller splits the mdat payload into hash_bmff_mdat_bytes calls.

use std::sync::Arc;

use c2pa::Builder;
use serde_json::{json, Value};

use crate::{
    assets,
    harness::{Meta, Property, RunCtx, RunOut, Tier},
    report::err_kind,
    rng::{hash_str, Rng},
    sdk,
    stream::{self, FaultPlan, SimStream},
};

pub struct C17;

struct Case {
    payload_extra: usize,
    large: bool,
    leaf_kb: Option<usize>,
    seed: u64,
}

/// Run the whole placeholder workflow with the payload fed in `split`; returns (state, leaves).
fn workflow(c: &Case, split: &[usize], chunk: usize) -> Result<(String, Value, usize), String> {
    workflow_full(c, split, chunk).map(|(a, b, c, _, _)| (a, b, c))
}

/// also returns the finished asset and (offset, header length, payload length) of its mdat
#[allow(clippy::type_complexity)]
fn workflow_full(c: &Case, split: &[usize], chunk: usize) -> Result<(String, Value, usize, Vec<u8>, (usize, usize, usize)), String> {
    let ctx = Arc::new(sdk::make_context(&json!({})).with_signer(sdk::make_signer("ed25519")));
    let vctx = Arc::new(sdk::make_context(&json!({})));
    c2pa::verif::set_random_seed(Some(c.seed));
    let mut b = Builder::from_shared_context(&ctx).with_definition(sdk::simple_definition("c17")).map_err(|e| err_kind(&e))?;
    if let Some(kb) = c.leaf_kb {
        b.set_bmff_hash_fixed_leaf_size(kb);
    }
    let ph = b.placeholder("video/mp4").map_err(|e| format!("placeholder:{}", err_kind(&e)))?;
    // room for the leaves: one per call plus one per fixed-size leaf, 64 bytes each (sha512 worst case)
    let mut ar = Rng::new(c.seed);
    let (probe, m0) = assets::mp4_sized(&mut ar.clone(), 0, c.payload_extra, Some(c.large));
    let payload_len = m0[0].2;
    let _ = probe;
    let leaves_max = split.len() + payload_len / 1024 + 4;
    let free_len = ph.len() + leaves_max * 72 + 1024;
    let (mut asset, mdats) = assets::mp4_sized(&mut ar, free_len, c.payload_extra, Some(c.large));
    let (moff, hdr, plen) = mdats[0];
    let payload = asset[moff + hdr..moff + hdr + plen].to_vec();
    if split.iter().sum::<usize>() != plen {
        return Err(format!("split {:?} does not cover payload {plen}", split.iter().sum::<usize>()));
    }
    let mut p = 0;
    for n in split {
        b.hash_bmff_mdat_bytes(0, &payload[p..p + n], c.large).map_err(|e| format!("hash_mdat:{}", err_kind(&e)))?;
        p += n;
    }
    let world = stream::new_world(FaultPlan { max_chunk: chunk, ..Default::default() }, Some(Rng::new(c.seed ^ 7)));
    let mut s = SimStream::new(&world, 0, asset.clone());
    b.update_hash_from_stream("video/mp4", &mut s).map_err(|e| format!("update_hash:{}", err_kind(&e)))?;
    let signed = b.sign_embeddable("video/mp4").map_err(|e| format!("sign_embeddable:{}", err_kind(&e)))?;
    // the free box sits right after ftyp
    let free_at = crate::corrupt::bmff_top_level(&asset).iter().find(|b| &b.0 == b"free").map(|b| b.1).ok_or("no free box")?;
    if signed.len() > free_len || (signed.len() != free_len && signed.len() + 8 > free_len) {
        return Err(format!("reserved {free_len} bytes, signed manifest needs {}", signed.len()));
    }
    asset[free_at..free_at + signed.len()].copy_from_slice(&signed);
    let rest = free_len - signed.len();
    if rest >= 8 {
        let q = free_at + signed.len();
        asset[q..q + 4].copy_from_slice(&(rest as u32).to_be_bytes());
        asset[q + 4..q + 8].copy_from_slice(b"free");
        for x in &mut asset[q + 8..q + rest] {
            *x = 0;
        }
    }
    let rep = sdk::read_plain(&vctx, "video/mp4", &asset).map_err(|e| format!("read:{e}"))?;
    // recorded leaves: the merkle entry of the bmff hash assertion
    let active = rep.active_label().unwrap_or("").to_string();
    let leaves = rep
        .detailed
        .get("manifests")
        .and_then(|m| m.get(&active))
        .and_then(|m| m.get("assertion_store"))
        .and_then(|a| a.as_object())
        .and_then(|a| a.iter().find(|(k, _)| k.starts_with("c2pa.hash.bmff")).map(|(_, v)| v.clone()))
        .and_then(|v| v.get("merkle").cloned())
        .unwrap_or(Value::Null);
    Ok((rep.brief(), leaves, plen, asset, (moff, hdr, plen)))
}

fn leaf_hashes(m: &Value) -> Value {
    // strip everything but the per-leaf hashes
    match m {
        Value::Array(a) => Value::Array(a.iter().map(|x| x.get("hashes").cloned().unwrap_or(Value::Null)).collect()),
        _ => Value::Null,
    }
}

impl Property for C17 {
    fn meta(&self) -> Meta {
        Meta {
            id: "C17",
            level: "exploration",
            rule: "one evaluation = one complete BMFF placeholder workflow on the real Builder (placeholder -> simulator lays out ftyp/free/moov/mdat -> the mdat payload is fed to hash_bmff_mdat_bytes in the scheduled pieces -> update_hash_from_stream over a chunking SimStream -> sign_embeddable -> manifest written over the free box -> Reader). Schedule: ALL two-way splits with the first cut in 0..32, all three-way splits with cuts in 0..12, plus seeded k-way splits with piece sizes around the leaf size; standard and large-size mdat headers; leaf size none / 1 KiB / 2 KiB. Payload sizes with a fixed leaf size: covered part (mdat box from byte 16) = whole leaves, one byte more, one byte less, arbitrary. Oracle: every split reads Valid/Trusted like the single-call feed; a one-bit change at the start, around every leaf boundary and at the end of the payload of the finished asset is never Valid/Trusted; with a fixed leaf size the recorded leaf hashes equal those of the single-call feed. Non-trivial = more than one piece; distinct = (header form, leaf size, split)",
            assumptions: &["payload = the bytes after the 8/16-byte mdat header, as the in-tree example feeds it", "one mdat per asset"],
            real: &["Builder::hash_bmff_mdat_bytes / MerkleAccumulator, update_hash_from_stream, sign_embeddable, BMFF hash validation"],
            stubbed: &["the caller (simulator splits the payload and patches the disk image)"],
            crash_prop: "C17",
        }
    }

    fn runs(&self, tier: Tier) -> u64 {
        match tier {
            Tier::Quick => 6 * 16 * 12,
            Tier::Thorough => 6 * 16 * 120,
        }
    }

    fn exhaustive(&self, _tier: Tier) -> bool {
        false
    }

    fn run(&self, rc: &mut RunCtx) -> RunOut {
        let mut out = RunOut::default();
        let cfg = rc.idx % 6;
        let shard = (rc.idx / 6) % 16;
        let variant = rc.idx / 96;
        let (large, leaf_kb) = [(false, None), (true, None), (false, Some(1)), (true, Some(1)), (false, Some(2)), (false, None)][cfg as usize];
        let payload_extra = match leaf_kb {
            Some(kb) => {
                // the leaves cover the mdat box from its 16th byte on: whole leaves, one byte more,
                // one byte less, and an arbitrary size, in turn
                let covered = match (variant + shard / 4) % 4 {
                    0 => 2 * kb * 1024,
                    1 => 2 * kb * 1024 + 1,
                    2 => 3 * kb * 1024 - 1,
                    _ => 2500 + (variant as usize % 3) * 700,
                };
                let want_payload = covered + if large { 0 } else { 8 };
                let seed = hash_str(&format!("c17-{}-{cfg}-{variant}", rc.seed));
                let p0 = assets::mp4_sized(&mut Rng::new(seed), 0, 0, Some(large)).1[0].2;
                want_payload.saturating_sub(p0)
            }
            None => 40 + (variant as usize % 5) * 37 + if cfg == 5 { 3000 } else { 0 },
        };
        let case = Case { payload_extra, large, leaf_kb, seed: hash_str(&format!("c17-{}-{cfg}-{variant}", rc.seed)) };
        let tag = format!("{}:{}:extra{payload_extra}", if large { "large" } else { "std" }, leaf_kb.map(|k| format!("leaf{k}k")).unwrap_or("varleaf".into()));
        // reference: one call
        let plen = {
            let (_, m) = assets::mp4_sized(&mut Rng::new(case.seed), 0, payload_extra, Some(large));
            m[0].2
        };
        let reference = match workflow(&case, &[plen], 0) {
            Ok(r) => r,
            Err(e) => {
                out.harness_error = Some(format!("{tag}: reference workflow failed: {e}"));
                return out;
            }
        };
        out.evals += 1;
        if reference.0 != "Trusted" && reference.0 != "Valid" {
            // the single-call feed is part of the statement too
            out.violate(0, &format!("single-call-feed-not-valid:{}", if large { "large" } else { "std" }), "C17 the asset reads back Valid", json!({"scenario": tag, "state": reference.0}));
            return out;
        }
        // the finished asset is tamper-evident over the whole payload: a changed byte at the start,
        // at each leaf boundary and at the very end is never Valid (shard 0 only)
        if shard % 4 == 0 {
            if let Ok((_, _, _, asset, (moff, hdr, pl))) = workflow_full(&case, &[plen], 0) {
                let vctx = Arc::new(sdk::make_context(&json!({})));
                let leaf = leaf_kb.map(|k| k * 1024).unwrap_or(0);
                let mut pos: Vec<usize> = vec![0, 7, 8, 9, pl - 1, pl - 2, pl / 2];
                if leaf > 0 {
                    // leaf k starts at box offset 16 + k * leaf
                    let mut q = 16 - hdr;
                    while q < pl {
                        pos.extend([q.saturating_sub(1), q, q + 1]);
                        q += leaf;
                    }
                }
                pos.retain(|p| *p < pl);
                pos.sort();
                pos.dedup();
                for p in pos {
                    let sub = 1_000_000 + p as u64;
                    if !rc.want_sub(sub) {
                        continue;
                    }
                    rc.mark(sub);
                    let mut t = asset.clone();
                    t[moff + hdr + p] ^= 0x01;
                    out.evals += 1;
                    out.fault("payload_byte_flip");
                    out.keys.push(hash_str(&format!("{tag}|flip{p}")));
                    let st = sdk::read_plain(&vctx, "video/mp4", &t).map(|r| r.state.clone()).unwrap_or_else(|e| format!("err:{e}"));
                    if st == "Valid" || st == "Trusted" {
                        let wherep = if p + 1 == pl { "last-byte".to_string() } else if leaf > 0 && p + hdr >= 16 && (p + hdr - 16) / leaf == (pl + hdr - 16 - 1) / leaf { "last-leaf".to_string() } else { "inner".to_string() };
                        out.violate(sub, &format!("payload-change-undetected:{}:{wherep}", if leaf > 0 { "fixed-leaf" } else { "var-leaf" }),
                            "C17 (with C01) a changed payload byte of the finished asset is never Valid",
                            json!({"scenario": tag, "payload_offset": p, "payload_len": pl, "state": st}));
                    }
                }
            }
        }
        // the schedule
        let mut splits: Vec<Vec<usize>> = Vec::new();
        for a in 0..=32usize.min(plen) {
            splits.push(vec![a, plen - a]);
        }
        for a in 0..=12usize {
            for b in 0..=12usize {
                if a + b <= plen {
                    splits.push(vec![a, b, plen - a - b]);
                }
            }
        }
        let leaf = leaf_kb.map(|k| k * 1024).unwrap_or(64);
        for _ in 0..24 {
            let mut left = plen;
            let mut v = Vec::new();
            while left > 0 && v.len() < 12 {
                let base = *rc.rng.pick(&[1usize, 7, 8, 9, leaf - 1, leaf, leaf + 1, 2 * leaf + 1]);
                let n = base.min(left).max(1);
                v.push(n);
                left -= n;
            }
            if left > 0 {
                v.push(left);
            }
            splits.push(v);
        }
        let mut tally = std::collections::BTreeMap::<String, u64>::new();
        for (i, sp) in splits.iter().enumerate() {
            let chunk = if i % 3 == 0 { 1 + rc.rng.below(512) as usize } else { 0 };
            if i as u64 % 16 != shard {
                continue;
            }
            let sub = i as u64;
            if !rc.want_sub(sub) {
                continue;
            }
            rc.mark(sub);
            out.evals += 1;
            out.fault("payload_split");
            if sp.len() > 1 {
                out.keys.push(hash_str(&format!("{tag}|{sp:?}")));
            }
            let first = sp[0];
            let cls = if first <= 8 { "first-piece<=8" } else { "first-piece>8" };
            match sdk::guarded(|| workflow(&case, sp, chunk)) {
                Err(p) => out.violate(sub, &format!("panic:{}", p.split('|').next().unwrap_or("?")), "C17 no panic", json!({"scenario": tag, "split": sp, "panic": p})),
                Ok(Err(e)) => {
                    *tally.entry(format!("err:{e}")).or_insert(0) += 1;
                    out.violate(sub, &format!("split-fails:{}:{cls}:{}", if large { "large" } else { "std" }, e.split(':').next().unwrap_or("")),
                        "C17 every split signs and reads back Valid", json!({"scenario": tag, "split": sp, "error": e}));
                }
                Ok(Ok((state, leaves, _))) => {
                    *tally.entry(state.clone()).or_insert(0) += 1;
                    if state != reference.0 {
                        out.violate(sub, &format!("split-not-valid:{}:{}:{cls}", if large { "large" } else { "std" }, if leaf_kb.is_some() { "fixed-leaf" } else { "var-leaf" }),
                            "C17 the asset reads back Valid for every way of splitting the payload",
                            json!({"scenario": tag, "split": sp, "state": state, "single_call_state": reference.0}));
                    } else if leaf_kb.is_some() && leaf_hashes(&leaves) != leaf_hashes(&reference.1) {
                        out.violate(sub, &format!("fixed-leaves-depend-on-split:{}:{cls}", if large { "large" } else { "std" }),
                            "C17 with a fixed leaf size the recorded leaves depend only on the payload",
                            json!({"scenario": tag, "split": sp}));
                    }
                }
            }
        }
        if shard == 0 {
            out.sample = Some(json!({"scenario": tag, "payload_len": plen, "splits": splits.len(), "reference": reference.0,
                "example_split": splits.get(40), "outcomes_this_shard": tally}));
        }
        out.digest = hash_str(&format!("{tag}|{:?}", tally));
        out
    }
}
