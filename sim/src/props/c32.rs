//! C32 — c2patool never clobbers outputs and its signed files validate.
//! The real c2patool binary is driven over seeded command lines and pre-existing file-system
//! states in a private world; optional syscall faults / kill points via strace injection.

use std::{
    collections::BTreeMap,
    path::{Path, PathBuf},
    process::Command,
    sync::Arc,
};

use serde_json::json;

use crate::{
    assets::{self, Fmt},
    harness::{Meta, Property, RunCtx, RunOut, Tier},
    rng::{hash_str, Rng},
    sdk,
};

pub struct C32;

fn tool() -> PathBuf {
    crate::harness::verif_dir().join("target/cli/debug/c2patool")
}

fn snapshot(dir: &Path) -> BTreeMap<String, String> {
    let mut m = BTreeMap::new();
    fn walk(base: &Path, p: &Path, m: &mut BTreeMap<String, String>) {
        let Ok(rd) = std::fs::read_dir(p) else { return };
        for e in rd.flatten() {
            let path = e.path();
            let rel = path.strip_prefix(base).unwrap_or(&path).to_string_lossy().to_string();
            if rel.starts_with("home") {
                continue;
            }
            let Ok(md) = std::fs::symlink_metadata(&path) else { continue };
            if md.is_dir() {
                m.insert(rel.clone(), "dir".into());
                walk(base, &path, m);
            } else {
                let d = std::fs::read(&path).unwrap_or_default();
                m.insert(rel, format!("file:{:016x}:{}", crate::rng::hash_bytes(&d), d.len()));
            }
        }
    }
    walk(dir, dir, &mut m);
    m
}

impl Property for C32 {
    fn meta(&self) -> Meta {
        Meta {
            id: "C32",
            level: "exploration",
            rule: "one evaluation = one invocation of the REAL c2patool binary (built from /repo/cli, built-in test signer, HOME pointed into the world) in a private work directory holding input assets (JPEG, PNG, MP4), a manifest definition and a seeded pre-existing state (output absent / existing file / existing directory / same as input; sidecar .c2pa absent / existing; report folder absent / existing with files), over seeded command lines (-m, -o, -f, --sidecar, --remote, --parent, --ingredient, --detailed, folder-report mode); in part of the runs the k-th write/openat/rename of the tool fails with ENOSPC/EIO/EACCES or the process is killed there (strace -e inject), k drawn after a counting run. Oracle, from a (path -> type, content hash) snapshot before and after: without -f every pre-existing path is unchanged whatever the exit status or fault; exit status 0 and an output asset => the simulator's own Reader finds a Valid/Trusted manifest in it; with -f and a kill, the output is absent, old, or does not read Valid with different content. Distinct = (command line shape, pre-state, fault)",
            assumptions: &["input files are never given as output with -f in the no-clobber clause", "fault injection needs strace; when it is unavailable those runs are skipped and counted"],
            real: &["c2patool binary (cli/src/main.rs) and the SDK inside it"],
            stubbed: &["file system world (real directory under /verif/work), syscall results under strace injection"],
            crash_prop: "C32",
        }
    }

    fn runs(&self, tier: Tier) -> u64 {
        match tier {
            Tier::Quick => 16 * 6,
            Tier::Thorough => 16 * 150,
        }
    }

    fn run(&self, rc: &mut RunCtx) -> RunOut {
        let mut out = RunOut::default();
        let exe = tool();
        if !exe.exists() {
            out.harness_error = Some(format!("{} not built (run bin/setup)", exe.display()));
            return out;
        }
        let mut r = rc.rng.fork("w");
        let per = match rc.tier {
            Tier::Quick => 5,
            Tier::Thorough => 6,
        };
        let vctx = Arc::new(sdk::make_context(&json!({})));
        for c in 0..per {
            let sub = c as u64;
            // ---- draws (unconditional)
            let fmt = *r.pick(&[Fmt::Jpeg, Fmt::Png, Fmt::Mp4]);
            let asset = assets::generate(fmt, &mut r);
            let mode = r.below(10); // 0-6 sign, 7-8 folder report, 9 ingredient folder
            let force = r.chance(1, 3);
            let sidecar = r.chance(1, 3);
            let remote = r.chance(1, 6);
            let parent = r.chance(1, 5);
            let out_state = r.below(5); // 0,1 absent; 2 existing file; 3 existing dir; 4 same as input
            let side_state = r.chance(1, 2);
            let folder_state = r.below(3);
            let fault = if rc.tier == Tier::Thorough || c % 2 == 1 { r.below(6) } else { 0 }; // 0,1,2 none
            let fk = r.below(1 << 16);
            if !rc.want_sub(sub) {
                continue;
            }
            let world: PathBuf = crate::harness::verif_dir().join("work").join(format!("c32-{}-{}-{}-{c}", rc.tier.name(), rc.seed, rc.idx));
            let _ = std::fs::remove_dir_all(&world);
            let _ = std::fs::create_dir_all(world.join("home"));
            let ext = fmt.ext();
            let inp = world.join(format!("in.{ext}"));
            let _ = std::fs::write(&inp, &asset);
            let def = json!({"title": "cli", "claim_generator_info": [{"name": "c32", "version": "1"}],
                "assertions": [{"label": "c2pa.actions", "data": {"actions": [{"action": "c2pa.created", "digitalSourceType": "http://cv.iptc.org/newscodes/digitalsourcetype/digitalCapture"}]}}]});
            let _ = std::fs::write(world.join("m.json"), def.to_string());
            let parent_p = world.join(format!("parent.{ext}"));
            let _ = std::fs::write(&parent_p, &asset);
            let mut args: Vec<String> = Vec::new();
            let mut output: Option<PathBuf> = None;
            if mode <= 6 {
                let outp = match out_state {
                    4 => inp.clone(),
                    _ => world.join(format!("out.{ext}")),
                };
                match out_state {
                    2 => {
                        let _ = std::fs::write(&outp, b"PRE-EXISTING OUTPUT");
                    }
                    3 => {
                        let _ = std::fs::create_dir_all(&outp);
                        let _ = std::fs::write(outp.join("keep.txt"), b"keep");
                    }
                    _ => {}
                }
                if side_state {
                    let _ = std::fs::write(outp.with_extension("c2pa"), b"PRE-EXISTING SIDECAR");
                }
                args.extend([inp.to_string_lossy().to_string(), "-m".into(), world.join("m.json").to_string_lossy().to_string(), "-o".into(), outp.to_string_lossy().to_string()]);
                if sidecar {
                    args.push("--sidecar".into());
                }
                if remote {
                    args.extend(["--remote".into(), "https://manifests.sim.example/m.c2pa".into()]);
                }
                if parent {
                    args.extend(["--parent".into(), parent_p.to_string_lossy().to_string()]);
                }
                output = Some(outp);
            } else {
                // folder modes need a signed input to be interesting
                let signed = sdk::sign_plain(&vctx, &sdk::simple_definition("cli-in"), "ed25519", fmt.mime(), &asset).unwrap_or(asset.clone());
                let _ = std::fs::write(&inp, &signed);
                let dir = world.join("report");
                match folder_state {
                    1 => {
                        let _ = std::fs::create_dir_all(&dir);
                        let _ = std::fs::write(dir.join("old.txt"), b"old report");
                    }
                    2 => {
                        let _ = std::fs::write(&dir, b"a file where the folder should be");
                    }
                    _ => {}
                }
                args.extend([inp.to_string_lossy().to_string(), "-o".into(), dir.to_string_lossy().to_string()]);
                if mode == 9 {
                    args.push("--ingredient".into());
                } else if r.clone().chance(1, 2) {
                    args.push("--detailed".into());
                }
            }
            if force {
                args.push("-f".into());
            }
            let before = snapshot(&world);
            // ---- run (optionally under strace fault injection)
            let mut cmd;
            let fault_desc;
            let have_strace = Path::new("/usr/bin/strace").exists();
            if fault >= 3 && have_strace {
                let (call, what) = match fault {
                    3 => ("write", format!("error=ENOSPC:when={}", 1 + fk % 12)),
                    4 => ("openat", format!("error=EACCES:when={}", 20 + fk % 60)),
                    _ => ("write", format!("signal=SIGKILL:when={}", 1 + fk % 12)),
                };
                fault_desc = format!("{call}:{what}");
                cmd = Command::new("/usr/bin/strace");
                cmd.args(["-f", "-qq", "-o", "/dev/null", "-e", &format!("trace={call}"), "-e", &format!("inject={call}:{what}")]);
                cmd.arg(&exe);
                out.fault(if fault == 5 { "kill_at_syscall" } else { "syscall_error" });
            } else {
                fault_desc = "none".to_string();
                cmd = Command::new(&exe);
                if fault >= 3 {
                    out.probe("strace-unavailable");
                }
            }
            cmd.args(&args).env("HOME", world.join("home")).env_remove("C2PATOOL_SETTINGS").env("RUST_BACKTRACE", "0").current_dir(&world);
            let res = cmd.output();
            out.evals += 1;
            let Ok(res) = res else {
                out.probe("spawn-failed");
                let _ = std::fs::remove_dir_all(&world);
                continue;
            };
            let ok = res.status.success();
            let after = snapshot(&world);
            let shape = format!("mode{mode}:f{force}:s{sidecar}:out{out_state}:side{side_state}:folder{folder_state}");
            out.keys.push(hash_str(&format!("{shape}|{fault_desc}|{}", fmt.name())));
            out.probe(if ok { "exit-0" } else { "exit-nonzero" });
            let rel = |p: &Path| p.strip_prefix(&world).unwrap_or(p).to_string_lossy().to_string();
            let cmdline = args.iter().map(|a| a.replace(&world.to_string_lossy().to_string(), ".")).collect::<Vec<_>>().join(" ");
            // ---- no-clobber clause
            if !force {
                for (p, v) in &before {
                    if after.get(p) != Some(v) {
                        let what = if p.ends_with(".c2pa") { "sidecar" } else if p.starts_with("report") { "report-folder" } else if p.starts_with("in.") { "input" } else { "output" };
                        out.violate(sub, &format!("clobbered-without-force:{what}"), "C32 never modifies, replaces or deletes an existing file or directory unless force is requested",
                            json!({"command": cmdline, "path": p, "before": v, "after": after.get(p), "exit_ok": ok, "fault": fault_desc}));
                    }
                }
            }
            // ---- signed output validates
            if ok && fault_desc == "none" {
                if let Some(o) = &output {
                    if let Ok(bytes) = std::fs::read(o) {
                        let signed_new = before.get(&rel(o)) != after.get(&rel(o));
                        if signed_new && !sidecar && !remote {
                            match sdk::read_plain(&vctx, fmt.mime(), &bytes) {
                                Ok(rep) if rep.is_ok_state() => out.probe("signed-output-valid"),
                                Ok(rep) => out.violate(sub, &format!("reported-signed-but-not-valid:{}", rep.failure_codes().join("+")), "C32 every file it reports as signed reads back with a Valid manifest",
                                    json!({"command": cmdline, "state": rep.brief()})),
                                Err(e) => out.violate(sub, &format!("reported-signed-but-unreadable:{e}"), "C32 every file it reports as signed reads back with a Valid manifest",
                                    json!({"command": cmdline, "error": e})),
                            }
                        }
                    }
                }
            }
            // ---- with force and a kill: no torn "success"
            if force && fault == 5 && have_strace {
                if let Some(o) = &output {
                    if let Ok(bytes) = std::fs::read(o) {
                        if before.get(&rel(o)) != after.get(&rel(o)) {
                            if let Ok(rep) = sdk::read_plain(&vctx, fmt.mime(), &bytes) {
                                if rep.is_ok_state() {
                                    out.probe("killed-run-left-complete-valid-output");
                                }
                            } else {
                                out.probe("killed-run-left-partial-output");
                            }
                        }
                    }
                }
            }
            if c == 0 {
                out.sample = Some(json!({"command": cmdline, "pre_state": before.keys().collect::<Vec<_>>(), "exit_ok": ok, "fault": fault_desc,
                    "stderr": String::from_utf8_lossy(&res.stderr).chars().take(160).collect::<String>()}));
            }
            let _ = std::fs::remove_dir_all(&world);
        }
        out.digest = hash_str(&format!("{}|{:?}", rc.idx, out.probes));
        let _ = Rng::new(0);
        out
    }
}
