//! C38 — validation is deterministic and repeatable; signing does not depend on state left
//! behind by earlier operations in the same process.

use std::sync::Arc;

use c2pa::{Builder, Reader};
use serde_json::{json, Value};

use crate::{
    assets::{self, Fmt},
    exec,
    harness::{Meta, Property, RunCtx, RunOut, Tier},
    props::c01::first_diff,
    report::{err_kind, Report},
    rng::hash_str,
    sdk,
    stream::{self, FaultPlan, SimStream},
};

pub struct C38;

fn overlay(k: u64) -> Value {
    match k % 4 {
        1 => json!({"trust": {"trust_anchors": null, "trust_config": null}}),
        2 => sdk::binding_overlay(sdk::Binding::Box),
        3 => json!({"verify": {"verify_after_sign": false}}),
        _ => json!({}),
    }
}

/// Read `bytes` in a freshly spawned process; returns (state, report json, codes).
fn read_in_fresh_process(fmt: Fmt, bytes: &[u8], ov: &Value, tag: &str) -> Result<Value, String> {
    let dir = crate::harness::verif_dir().join("work");
    let _ = std::fs::create_dir_all(&dir);
    let path = dir.join(format!("c38-{}-{tag}.bin", std::process::id()));
    std::fs::write(&path, bytes).map_err(|e| e.to_string())?;
    let exe = std::env::current_exe().map_err(|e| e.to_string())?;
    let o = std::process::Command::new(exe)
        .args(["child-read", "C38", "--fmt", fmt.mime(), "--file", &path.to_string_lossy(), "--settings", &ov.to_string()])
        .output()
        .map_err(|e| e.to_string());
    let _ = std::fs::remove_file(&path);
    let o = o?;
    if !o.status.success() {
        return Err(format!("child exited {:?}", o.status));
    }
    serde_json::from_slice(&o.stdout).map_err(|e| format!("child output: {e}"))
}

/// Entry point of the child process.
pub fn child_read(fmt: &str, file: &str, settings: &str) -> i32 {
    let ov: Value = serde_json::from_str(settings).unwrap_or(json!({}));
    let ctx = Arc::new(sdk::make_context(&ov));
    let Ok(bytes) = std::fs::read(file) else { return 2 };
    let v = match sdk::read_plain(&ctx, fmt, &bytes) {
        Ok(r) => json!({"state": r.state, "json": r.json, "codes": r.codes}),
        Err(e) => json!({"err": e}),
    };
    println!("{v}");
    0
}

fn as_value(r: &Result<Report, String>) -> Value {
    match r {
        Ok(r) => json!({"state": r.state, "json": r.json, "codes": r.codes}),
        Err(e) => json!({"err": e}),
    }
}

impl Property for C38 {
    fn meta(&self) -> Meta {
        Meta {
            id: "C38",
            level: "exploration",
            rule: "one evaluation = one history of 8-30 operations in ONE process (sign, read, add-ingredient, archive save/restore, an operation made to fail by an injected stream fault, a cancelled operation, an async operation dropped mid-await, deprecated thread-local settings changes followed by restoring the full default dump, a thread-local settings text that is refused by validation, reads under different contexts, hash chunk knob changes), all artefacts kept; afterwards every artefact is re-read in-process and in a freshly spawned process with the same settings, and the first definition is signed again. Oracle: first read == re-read == fresh-process read (report and code multiset, validation time removed); re-sign report == first-sign report on per-signing-invariant fields. Any difference implicates state left behind (thread-local settings, caches, lazy statics, OnceLocks). Non-trivial = history contained a failing / cancelled / dropped operation; distinct = history",
            assumptions: &["fresh-process reads use the same simulator binary", "SDK randomness reseeded identically for first sign and re-sign"],
            real: &["c2pa SDK process-wide and thread-local state"],
            stubbed: &["streams (SimStream) for the faulted operations"],
            crash_prop: "C38",
        }
    }

    fn runs(&self, tier: Tier) -> u64 {
        match tier {
            Tier::Quick => 48,
            Tier::Thorough => 48 * 60,
        }
    }

    fn supports_mask(&self) -> bool {
        true
    }

    fn run(&self, rc: &mut RunCtx) -> RunOut {
        let mut out = RunOut::default();
        let mut r = rc.rng.fork("w");
        let fmts = [Fmt::Jpeg, Fmt::Png, Fmt::Mp4, Fmt::Wav, Fmt::Gif, Fmt::Tiff];
        let n_ops = r.usize(8, 30);
        out.n_ops = n_ops;
        let mask = rc.mask.clone().unwrap_or_else(|| vec![true; n_ops]);
        // the first definition, signed first and re-signed at the end
        let first_fmt = *r.pick(&fmts);
        let first_asset = assets::generate(first_fmt, &mut r);
        let first_ov = overlay(r.below(4));
        let first_def = sdk::simple_definition("c38-first");
        let sign_first = |seed: u64| -> Result<(Vec<u8>, Value), String> {
            c2pa::verif::set_random_seed(Some(seed));
            let ctx = Arc::new(sdk::make_context(&first_ov));
            let s = sdk::sign_plain(&ctx, &first_def, "ed25519", first_fmt.mime(), &first_asset)?;
            let rep = sdk::read_plain(&ctx, first_fmt.mime(), &s)?;
            Ok((s, rep.projected()))
        };
        let rs = hash_str(&format!("c38-{}-{}", rc.seed, rc.idx));
        let (first_signed, first_report) = match sign_first(rs) {
            Ok(x) => x,
            Err(e) => {
                out.harness_error = Some(format!("first sign: {e}"));
                return out;
            }
        };
        // artefacts: (fmt, bytes, overlay, first read)
        let mut arts: Vec<(Fmt, Vec<u8>, Value, Result<Report, String>)> = Vec::new();
        {
            let ctx = Arc::new(sdk::make_context(&first_ov));
            let rr = sdk::read_plain(&ctx, first_fmt.mime(), &first_signed);
            arts.push((first_fmt, first_signed.clone(), first_ov.clone(), rr));
        }
        let mut trace: Vec<String> = Vec::new();
        let mut disturbed = false;
        // there is no public reset of the legacy thread-local settings: restore the full dump taken now
        #[allow(deprecated)]
        let legacy_default = c2pa::Settings::to_toml().unwrap_or_default();
        for i in 0..n_ops {
            let k = r.below(12);
            let fmt = *r.pick(&fmts);
            let ov = overlay(r.below(4));
            let asset = assets::generate(fmt, &mut r);
            let fail_at = r.below(60);
            let knob = *r.pick(&[0usize, 64, 700, 5000]);
            let corrupt_at = r.below(1 << 20) as usize;
            if !mask[i] {
                continue;
            }
            out.evals += 1;
            let ctx = Arc::new(sdk::make_context(&ov));
            c2pa::verif::set_max_hash_buf(knob);
            match k {
                0..=2 => {
                    trace.push(format!("sign({})", fmt.name()));
                    if let Ok(s) = sdk::sign_plain(&ctx, &sdk::simple_definition(&format!("h{i}")), "ed25519", fmt.mime(), &asset) {
                        let rr = sdk::read_plain(&ctx, fmt.mime(), &s);
                        arts.push((fmt, s, ov.clone(), rr));
                    }
                }
                3 => {
                    // a tampered artefact: Invalid results must be repeatable too
                    // (the first or the latest artefact; three times in four inside its manifest
                    // store, where a verdict cached under the manifest's label would go stale)
                    let pick = if corrupt_at % 2 == 0 { arts.first() } else { arts.last() };
                    if let Some((f, b, o, _)) = pick.cloned() {
                        let mut m = b.clone();
                        let mut p = corrupt_at % m.len();
                        if corrupt_at % 4 != 0 {
                            if let Ok(st) = c2pa::jumbf_io::load_jumbf_from_memory(f.mime(), &b) {
                                if st.len() > 64 {
                                    if let Some(at) = crate::jumbf::find_sub(&b, &st[8..]) {
                                        p = at + (corrupt_at / 4) % (st.len() - 8);
                                    }
                                }
                            }
                        }
                        m[p] ^= 0x20;
                        trace.push(format!("tamper+read({} @{p})", f.name()));
                        let c2 = Arc::new(sdk::make_context(&o));
                        let rr = sdk::guarded(|| sdk::read_plain(&c2, f.mime(), &m)).unwrap_or_else(|p| Err(format!("panic:{p}")));
                        arts.push((f, m, o, rr));
                    }
                }
                4 => {
                    trace.push(format!("sign-with-io-fault({} @{fail_at})", fmt.name()));
                    let world = stream::new_world(FaultPlan { fail_at: Some(fail_at), sticky: true, ..Default::default() }, None);
                    let _ = sdk::guarded(|| sdk::sign_sim(&ctx, &sdk::simple_definition("f"), "ed25519", fmt.mime(), &asset, &world));
                    disturbed = true;
                    out.fault("failed_operation");
                }
                5 => {
                    trace.push(format!("cancelled-read({})", fmt.name()));
                    if let Some((f, b, o, _)) = arts.last().cloned() {
                        let c2 = crate::ops::make_ctx(&o);
                        crate::ops::cb_reset(None, Some(1 + (fail_at % 4) as usize));
                        let _ = sdk::guarded(|| Reader::from_shared_context(&c2).with_stream(f.mime(), std::io::Cursor::new(b)).map(|_| ()).map_err(|e| err_kind(&e)));
                        crate::ops::cb_reset(None, None);
                        disturbed = true;
                        out.fault("cancelled_operation");
                    }
                }
                6 => {
                    trace.push(format!("async-read-dropped({})", fmt.name()));
                    if let Some((f, b, o, _)) = arts.last().cloned() {
                        let c2 = Arc::new(sdk::make_context(&o));
                        let fut: std::pin::Pin<Box<dyn std::future::Future<Output = ()>>> = Box::pin(async move {
                            exec::PendN(2).await;
                            let _ = Reader::from_shared_context(&c2).with_stream_async(f.mime(), std::io::Cursor::new(b)).await;
                        });
                        let mut rr = r.fork("race");
                        let _ = sdk::guarded(|| exec::race(vec![Some(fut)], &mut rr, Some((0, 1))));
                        disturbed = true;
                        out.fault("dropped_future");
                    }
                }
                7 if fail_at % 3 == 0 => {
                    // a settings text that parses but is refused (value out of range): nothing of
                    // it may stick to the thread
                    trace.push("legacy-settings-refused".into());
                    // reads through the thread-local API before and after: the refused text may
                    // leave no trace in what the next legacy call sees
                    let legacy_read = |arts: &Vec<(Fmt, Vec<u8>, Value, Result<Report, String>)>| -> Option<Value> {
                        let (f, b, _, _) = arts.first()?;
                        #[allow(deprecated)]
                        let r = Reader::from_stream(f.mime(), std::io::Cursor::new(b.clone()));
                        Some(as_value(&r.map(|r| Report::from_reader(&r)).map_err(|e| err_kind(&e))))
                    };
                    let before = legacy_read(&arts);
                    #[allow(deprecated)]
                    let res = c2pa::Settings::from_toml("version = 1\n[verify]\nverify_trust = false\nverify_after_sign = false\n[core]\nmax_decompressed_manifest_size_in_mb = 99999999\n");
                    out.probe(if res.is_err() { "refused-settings-rejected" } else { "refused-settings-accepted" });
                    if res.is_err() {
                        let after = legacy_read(&arts);
                        if before != after {
                            if let (Some(b0), Some(a0)) = (&before, &after) {
                                out.violate(i as u64, "refused-settings-leave-state-behind", "C38 results never depend on state left behind by an earlier (here: failed) operation",
                                    json!({"history": trace, "first_difference": first_diff(b0, a0, "")}));
                            }
                        } else {
                            out.probe("refused-settings-left-no-trace");
                        }
                    }
                    if res.is_ok() {
                        // accepted after all: put the defaults back like the other settings operation
                        #[allow(deprecated)]
                        let _ = c2pa::Settings::from_toml(&legacy_default);
                    }
                    disturbed = true;
                    out.fault("thread_local_settings_refused");
                }
                7 => {
                    trace.push("legacy-settings+reset".into());
                    #[allow(deprecated)]
                    let _ = c2pa::Settings::from_toml("version = 1\n[verify]\nverify_trust = false\nverify_after_sign = false\n[core]\nmerkle_tree_max_proofs = 9\n");
                    if r.chance(3, 4) {
                        #[allow(deprecated)]
                        let _ = c2pa::Settings::from_toml(&legacy_default);
                    } else {
                        trace.push("(no reset)".into());
                        // leave it set for a while, reset right before the final checks
                    }
                    disturbed = true;
                    out.fault("thread_local_settings_change");
                }
                8 => {
                    trace.push(format!("add-ingredient+sign({})", fmt.name()));
                    if let Some((f, b, _, _)) = arts.last().cloned() {
                        if let Ok(mut bl) = Builder::from_shared_context(&ctx).with_definition(sdk::simple_definition(&format!("p{i}"))) {
                            let _ = bl.add_ingredient_from_stream(json!({"title": "i", "relationship": "componentOf"}).to_string(), f.mime(), &mut std::io::Cursor::new(b));
                            let mut d = std::io::Cursor::new(Vec::new());
                            if bl.sign(sdk::make_signer("ed25519").as_ref(), fmt.mime(), &mut std::io::Cursor::new(asset.clone()), &mut d).is_ok() {
                                let s = d.into_inner();
                                let rr = sdk::read_plain(&ctx, fmt.mime(), &s);
                                arts.push((fmt, s, ov.clone(), rr));
                            }
                        }
                    }
                }
                9 => {
                    trace.push(format!("archive-roundtrip({})", fmt.name()));
                    if let Ok(bl) = Builder::from_shared_context(&ctx).with_definition(sdk::simple_definition(&format!("a{i}"))) {
                        let mut a = std::io::Cursor::new(Vec::new());
                        if bl.to_archive(&mut a).is_ok() {
                            let _ = Builder::from_shared_context(&ctx).with_archive(std::io::Cursor::new(a.into_inner()));
                        }
                    }
                }
                _ => {
                    trace.push("re-read-under-other-context".into());
                    if let Some((f, b, _, _)) = arts.last().cloned() {
                        let _ = sdk::read_plain(&ctx, f.mime(), &b);
                    }
                }
            }
            // chunked read of an artefact with a sim stream (cache / state exercise)
            if i % 5 == 4 {
                if let Some((f, b, o, _)) = arts.first().cloned() {
                    let c2 = Arc::new(sdk::make_context(&o));
                    let world = stream::new_world(FaultPlan { max_chunk: 7, ..Default::default() }, Some(r.fork("c")));
                    let s = SimStream::new(&world, 0, b);
                    let _ = Reader::from_shared_context(&c2).with_stream(f.mime(), s);
                }
            }
        }
        c2pa::verif::set_max_hash_buf(0);
        #[allow(deprecated)]
        let _ = c2pa::Settings::from_toml(&legacy_default);
        if disturbed {
            out.keys.push(hash_str(&format!("{trace:?}")));
        }
        // re-read everything: in process and in a fresh process
        for (ai, (f, b, o, first)) in arts.iter().enumerate() {
            let ctx = Arc::new(sdk::make_context(o));
            let again = sdk::read_plain(&ctx, f.mime(), b);
            let v1 = as_value(first);
            let v2 = as_value(&again);
            out.evals += 1;
            if v1 != v2 {
                out.violate(ai as u64, "reread-differs-in-process", "C38 reading the same bytes twice with the same settings yields the same report and codes",
                    json!({"history": trace, "artefact": ai, "format": f.name(), "first_difference": first_diff(&v1, &v2, "")}));
            }
            // fresh process: every artefact in quick would be slow; first 6 + every 3rd
            if ai < 6 || ai % 3 == 0 {
                match read_in_fresh_process(*f, b, o, &format!("{}-{ai}", rc.idx)) {
                    Err(e) => out.probe(&format!("fresh-process-error:{}", e.chars().take(40).collect::<String>())),
                    Ok(v3) => {
                        out.evals += 1;
                        out.probe("fresh-process-reads");
                        if v3 != v1 {
                            out.violate(ai as u64, "fresh-process-read-differs", "C38 the verdict does not depend on state left behind by earlier operations in the process",
                                json!({"history": trace, "artefact": ai, "format": f.name(), "first_difference": first_diff(&v1, &v3, "")}));
                        }
                    }
                }
            }
        }
        // re-sign the first definition
        match sign_first(rs) {
            Err(e) => out.violate(999, &format!("resign-fails:{e}"), "C38 signing never depends on state left behind by earlier operations",
                json!({"history": trace, "error": e})),
            Ok((bytes2, rep2)) => {
                if rep2 != first_report {
                    out.violate(999, "resign-report-differs", "C38 signing never depends on state left behind by earlier operations",
                        json!({"history": trace, "first_difference": first_diff(&first_report, &rep2, "")}));
                } else if bytes2 != first_signed {
                    // with identical SDK randomness the bytes themselves should repeat
                    out.probe("resign-bytes-differ-report-same");
                } else {
                    out.probe("resign-byte-identical");
                }
            }
        }
        out.sample = Some(json!({"history": trace, "artefacts": arts.len()}));
        out.digest = hash_str(&format!("{trace:?}|{}", arts.len()));
        out
    }
}
