//! C31 — the C API never crashes or double-frees on handle misuse.
//! Call histories against a model of the handle table; every history runs in a forked child,
//! so death by signal is an observation.

use std::{
    collections::HashMap,
    ffi::{c_char, c_void, CStr, CString},
    io::{Cursor, Read, Seek, SeekFrom, Write},
};

use c2pa_c::*;
use serde_json::{json, Value};

use crate::{
    assets::{self, Fmt},
    harness::{Meta, Property, RunCtx, RunOut, Tier},
    rng::{hash_str, Rng},
    sdk,
};

pub struct C31;

// the C API's opaque handle types are private aliases of these SDK types
type C2paContext = std::sync::Arc<c2pa::Context>;
type C2paContextBuilder = c2pa::Context;
type C2paSettings = c2pa::Settings;
type C2paReader = c2pa::Reader;
type C2paBuilder = c2pa::Builder;

#[derive(Clone, Copy, Debug, PartialEq, Eq, Hash)]
enum T {
    Settings,
    CtxBuilder,
    Ctx,
    Reader,
    Builder,
    Signer,
    Stream,
    Str,
    Bytes,
}

#[derive(Clone, Copy, Debug, PartialEq)]
enum ArgKind {
    Live,
    WrongType,
    Freed,
    Null,
    Foreign,
}

// ---- stream callbacks over a leaked Cursor<Vec<u8>>
unsafe extern "C" fn s_read(ctx: *mut StreamContext, data: *mut u8, len: isize) -> isize {
    let c = &mut *(ctx as *mut Cursor<Vec<u8>>);
    let buf = std::slice::from_raw_parts_mut(data, len.max(0) as usize);
    c.read(buf).map(|n| n as isize).unwrap_or(-1)
}
unsafe extern "C" fn s_seek(ctx: *mut StreamContext, off: isize, mode: C2paSeekMode) -> isize {
    let c = &mut *(ctx as *mut Cursor<Vec<u8>>);
    let p = match mode {
        C2paSeekMode::Start => SeekFrom::Start(off.max(0) as u64),
        C2paSeekMode::Current => SeekFrom::Current(off as i64),
        C2paSeekMode::End => SeekFrom::End(off as i64),
    };
    c.seek(p).map(|n| n as isize).unwrap_or(-1)
}
unsafe extern "C" fn s_write(ctx: *mut StreamContext, data: *const u8, len: isize) -> isize {
    let c = &mut *(ctx as *mut Cursor<Vec<u8>>);
    let buf = std::slice::from_raw_parts(data, len.max(0) as usize);
    c.write(buf).map(|n| n as isize).unwrap_or(-1)
}
unsafe extern "C" fn s_flush(_ctx: *mut StreamContext) -> isize {
    0
}

struct Model {
    /// addr -> (type, live): what the library's registry should contain
    table: HashMap<usize, (T, bool)>,
    /// issuance records in order: (addr, type, this record still live). Arguments are picked by
    /// record index, never by address, so that the history does not depend on what addresses the
    /// allocator happens to hand out or reuse.
    seen: Vec<(usize, T, bool)>,
    foreign: Vec<usize>,
    /// handle arguments of the previous call (use-right-after-consume/free is where stale
    /// validation state would show)
    recent: Vec<usize>,
}

impl Model {
    fn issue(&mut self, p: usize, t: T) {
        if p != 0 {
            self.table.insert(p, (t, true));
            self.seen.push((p, t, true));
        }
    }
    fn live(&self, p: usize, t: T) -> bool {
        self.table.get(&p).map(|(tt, l)| *l && *tt == t).unwrap_or(false)
    }
    fn live_any(&self, p: usize) -> bool {
        self.table.get(&p).map(|(_, l)| *l).unwrap_or(false)
    }
    fn kill(&mut self, p: usize) {
        if let Some(e) = self.table.get_mut(&p) {
            e.1 = false;
        }
        if let Some(r) = self.seen.iter_mut().rev().find(|r| r.0 == p && r.2) {
            r.2 = false;
        }
    }
    fn pick(&self, r: &mut Rng, want: T, force_live: bool) -> (usize, ArgKind) {
        let live: Vec<usize> = self.seen.iter().filter(|x| x.2 && x.1 == want).map(|x| x.0).collect();
        let k = if force_live { 0 } else { r.below(25) };
        let (p, kind) = match k {
            0..=11 if !live.is_empty() => (live[r.below(live.len() as u64) as usize], ArgKind::Live),
            12 | 13 => {
                let w: Vec<usize> = self.seen.iter().filter(|x| x.2 && x.1 != want).map(|x| x.0).collect();
                if w.is_empty() {
                    (0, ArgKind::Null)
                } else {
                    (w[r.below(w.len() as u64) as usize], ArgKind::WrongType)
                }
            }
            14 | 15 | 16 => {
                let f: Vec<usize> = self.seen.iter().filter(|x| !x.2).map(|x| x.0).collect();
                if f.is_empty() {
                    (0, ArgKind::Null)
                } else {
                    (f[r.below(f.len() as u64) as usize], ArgKind::Freed)
                }
            }
            17 => (self.foreign[r.below(self.foreign.len() as u64) as usize], ArgKind::Foreign),
            20..=24 if !self.recent.is_empty() => (self.recent[r.below(self.recent.len() as u64) as usize], ArgKind::Freed),
            _ => (0, ArgKind::Null),
        };
        if p == 0 {
            return (0, ArgKind::Null);
        }
        // the allocator may have reissued a freed address: what counts is the registry state now
        if self.live(p, want) {
            (p, ArgKind::Live)
        } else if kind == ArgKind::Live {
            (p, ArgKind::Freed)
        } else {
            (p, kind)
        }
    }
}

fn last_error() -> String {
    unsafe {
        let e = c2pa_error();
        if e.is_null() {
            return String::new();
        }
        let s = CStr::from_ptr(e).to_string_lossy().to_string();
        c2pa_string_free(e);
        s
    }
}

const N_CALLS: u64 = 31;

fn call_name(k: u64) -> &'static str {
    [
        "settings_new", "context_builder_new", "context_new", "reader_from_context", "builder_from_context", "builder_from_json", "stream_new",
        "signer_from_info", "settings_set_value", "context_builder_set_settings", "context_builder_build", "context_builder_set_signer",
        "context_cancel", "reader_with_stream", "reader_json", "reader_detailed_json", "builder_with_definition", "builder_set_remote_url",
        "builder_add_action", "builder_to_archive", "builder_with_archive", "builder_add_resource", "builder_add_ingredient_from_stream",
        "builder_sign", "reader_resource_to_stream", "c2pa_free", "typed_free", "builder_set_no_embed", "reader_is_embedded", "free_twice",
        "free_on_another_thread",
    ][k as usize]
}

/// Run one history in this (child) process. Reports through `say`.
fn run_history(seed: u64, n_calls: usize, mask: &Option<Vec<bool>>, say: &mut dyn FnMut(Value)) {
    let mut r = Rng::new(seed);
    let mut m = Model { table: HashMap::new(), seen: vec![], foreign: vec![], recent: vec![] };
    // foreign pointers: buffers of adequate size that the library never issued
    for _ in 0..3 {
        let b: Box<[u8; 4096]> = Box::new([0u8; 4096]);
        m.foreign.push(Box::leak(b).as_ptr() as usize);
    }
    let signed_jpeg = {
        let ctx = std::sync::Arc::new(sdk::make_context(&json!({})));
        let a = assets::generate(Fmt::Jpeg, &mut Rng::new(seed ^ 5));
        sdk::sign_plain(&ctx, &sdk::simple_definition("c31"), "ed25519", "image/jpeg", &a).unwrap_or(a)
    };
    let plain_jpeg = assets::generate(Fmt::Jpeg, &mut Rng::new(seed ^ 6));
    let def = CString::new(sdk::simple_definition("ffi").to_string()).unwrap();
    let fmt = CString::new("image/jpeg").unwrap();
    let (cert, key, _) = sdk::cert_and_key("ed25519");
    let cert_c = CString::new(cert).unwrap();
    let key_c = CString::new(key).unwrap();
    let alg_c = CString::new("ed25519").unwrap();
    let mk_stream = |data: Vec<u8>| -> *mut C2paStream {
        let c = Box::into_raw(Box::new(Cursor::new(data)));
        unsafe { c2pa_create_stream(c as *mut StreamContext, s_read, s_seek, s_write, s_flush) }
    };
    for i in 0..n_calls {
        let k = r.below(N_CALLS);
        // argument draws happen whether or not the call is masked out
        let mut rr = r.fork("args");
        if let Some(mk) = mask {
            if !mk.get(i).copied().unwrap_or(true) {
                continue;
            }
        }
        say(json!({"c": i, "n": call_name(k)}));
        let mut args: Vec<(usize, ArgKind, T)> = Vec::new();
        let mut arg = |m: &Model, rr: &mut Rng, t: T| -> usize {
            let (p, kind) = m.pick(rr, t, false);
            args.push((p, kind, t));
            p
        };
        // result classification: Some(true) = error indicator returned, Some(false) = success, None = void / not judged
        let mut err: Option<bool> = None;
        let mut consumed: Vec<usize> = Vec::new();
        let mut issued: Vec<(usize, T)> = Vec::new();
        unsafe {
            match k {
                0 => issued.push((c2pa_settings_new() as usize, T::Settings)),
                1 => issued.push((c2pa_context_builder_new() as usize, T::CtxBuilder)),
                2 => issued.push((c2pa_context_new() as usize, T::Ctx)),
                3 => {
                    let c = arg(&m, &mut rr, T::Ctx);
                    let p = c2pa_reader_from_context(c as *mut C2paContext);
                    err = Some(p.is_null());
                    issued.push((p as usize, T::Reader));
                }
                4 => {
                    let c = arg(&m, &mut rr, T::Ctx);
                    let p = c2pa_builder_from_context(c as *mut C2paContext);
                    err = Some(p.is_null());
                    issued.push((p as usize, T::Builder));
                }
                5 => issued.push((c2pa_builder_from_json(def.as_ptr()) as usize, T::Builder)),
                6 => {
                    let data = match rr.below(3) {
                        0 => signed_jpeg.clone(),
                        1 => plain_jpeg.clone(),
                        _ => Vec::new(),
                    };
                    issued.push((mk_stream(data) as usize, T::Stream));
                }
                7 => {
                    let info = C2paSignerInfo { alg: alg_c.as_ptr(), sign_cert: cert_c.as_ptr(), private_key: key_c.as_ptr(), ta_url: std::ptr::null() };
                    issued.push((c2pa_signer_from_info(&info) as usize, T::Signer));
                }
                8 => {
                    let s = arg(&m, &mut rr, T::Settings);
                    let path = CString::new("verify.verify_after_sign").unwrap();
                    let val = CString::new("false").unwrap();
                    err = Some(c2pa_settings_set_value(s as *mut C2paSettings, path.as_ptr(), val.as_ptr()) < 0);
                }
                9 => {
                    let b = arg(&m, &mut rr, T::CtxBuilder);
                    let s = arg(&m, &mut rr, T::Settings);
                    err = Some(c2pa_context_builder_set_settings(b as *mut C2paContextBuilder, s as *mut C2paSettings) < 0);
                }
                10 => {
                    let b = arg(&m, &mut rr, T::CtxBuilder);
                    let p = c2pa_context_builder_build(b as *mut C2paContextBuilder);
                    err = Some(p.is_null());
                    if m.live(b, T::CtxBuilder) {
                        consumed.push(b);
                    }
                    issued.push((p as usize, T::Ctx));
                }
                11 => {
                    let b = arg(&m, &mut rr, T::CtxBuilder);
                    let s = arg(&m, &mut rr, T::Signer);
                    err = Some(c2pa_context_builder_set_signer(b as *mut C2paContextBuilder, s as *mut C2paSigner) < 0);
                    if m.live(b, T::CtxBuilder) && m.live(s, T::Signer) {
                        consumed.push(s);
                    }
                }
                12 => {
                    let c = arg(&m, &mut rr, T::Ctx);
                    err = Some(c2pa_context_cancel(c as *mut C2paContext) < 0);
                }
                13 => {
                    let rd = arg(&m, &mut rr, T::Reader);
                    let st = arg(&m, &mut rr, T::Stream);
                    let p = c2pa_reader_with_stream(rd as *mut C2paReader, fmt.as_ptr(), st as *mut C2paStream);
                    if m.live(rd, T::Reader) {
                        consumed.push(rd); // consumed whatever happens next
                    }
                    // a valid call may still fail (no manifest): only misuse is judged
                    err = Some(p.is_null());
                    issued.push((p as usize, T::Reader));
                }
                14 | 15 => {
                    let rd = arg(&m, &mut rr, T::Reader);
                    let p = if k == 14 { c2pa_reader_json(rd as *mut C2paReader) } else { c2pa_reader_detailed_json(rd as *mut C2paReader) };
                    err = Some(p.is_null());
                    issued.push((p as usize, T::Str));
                }
                16 => {
                    let b = arg(&m, &mut rr, T::Builder);
                    let p = c2pa_builder_with_definition(b as *mut C2paBuilder, def.as_ptr());
                    if m.live(b, T::Builder) {
                        consumed.push(b);
                    }
                    err = Some(p.is_null());
                    issued.push((p as usize, T::Builder));
                }
                17 => {
                    let b = arg(&m, &mut rr, T::Builder);
                    let url = CString::new("https://manifests.sim.example/m.c2pa").unwrap();
                    err = Some(c2pa_builder_set_remote_url(b as *mut C2paBuilder, url.as_ptr()) < 0);
                }
                18 => {
                    let b = arg(&m, &mut rr, T::Builder);
                    let a = CString::new(r#"{"action":"c2pa.edited"}"#).unwrap();
                    err = Some(c2pa_builder_add_action(b as *mut C2paBuilder, a.as_ptr()) < 0);
                }
                19 => {
                    let b = arg(&m, &mut rr, T::Builder);
                    let st = arg(&m, &mut rr, T::Stream);
                    err = Some(c2pa_builder_to_archive(b as *mut C2paBuilder, st as *mut C2paStream) < 0);
                }
                20 => {
                    let b = arg(&m, &mut rr, T::Builder);
                    let st = arg(&m, &mut rr, T::Stream);
                    let p = c2pa_builder_with_archive(b as *mut C2paBuilder, st as *mut C2paStream);
                    if m.live(b, T::Builder) {
                        consumed.push(b);
                    }
                    err = Some(p.is_null());
                    issued.push((p as usize, T::Builder));
                }
                21 => {
                    let b = arg(&m, &mut rr, T::Builder);
                    let st = arg(&m, &mut rr, T::Stream);
                    let uri = CString::new("thumb.jpg").unwrap();
                    err = Some(c2pa_builder_add_resource(b as *mut C2paBuilder, uri.as_ptr(), st as *mut C2paStream) < 0);
                }
                22 => {
                    let b = arg(&m, &mut rr, T::Builder);
                    let st = arg(&m, &mut rr, T::Stream);
                    let ij = CString::new(r#"{"title":"i","relationship":"componentOf"}"#).unwrap();
                    err = Some(c2pa_builder_add_ingredient_from_stream(b as *mut C2paBuilder, ij.as_ptr(), fmt.as_ptr(), st as *mut C2paStream) < 0);
                }
                23 => {
                    let b = arg(&m, &mut rr, T::Builder);
                    let src = arg(&m, &mut rr, T::Stream);
                    let dst = arg(&m, &mut rr, T::Stream);
                    let sg = arg(&m, &mut rr, T::Signer);
                    let mut out: *const u8 = std::ptr::null();
                    let n = c2pa_builder_sign(b as *mut C2paBuilder, fmt.as_ptr(), src as *mut C2paStream, dst as *mut C2paStream, sg as *mut C2paSigner, &mut out);
                    err = Some(n < 0);
                    if n >= 0 {
                        issued.push((out as usize, T::Bytes));
                    }
                }
                24 => {
                    let rd = arg(&m, &mut rr, T::Reader);
                    let st = arg(&m, &mut rr, T::Stream);
                    let uri = CString::new("self#jumbf=c2pa.assertions/c2pa.thumbnail.claim.jpeg").unwrap();
                    err = Some(c2pa_reader_resource_to_stream(rd as *mut C2paReader, uri.as_ptr(), st as *mut C2paStream) < 0);
                }
                25 => {
                    // c2pa_free on anything
                    let t = *rr.pick(&[T::Settings, T::CtxBuilder, T::Ctx, T::Reader, T::Builder, T::Signer, T::Stream, T::Str, T::Bytes]);
                    let (p, kind) = m.pick(&mut rr, t, false);
                    let was_live = m.live_any(p);
                    let rc = c2pa_free(p as *const c_void);
                    let want_ok = was_live || p == 0;
                    m.kill(p);
                    if (rc == 0) != want_ok {
                        say(json!({"v": format!("free-return-value:{}", if want_ok { "live-or-null-reported-error" } else { "dead-or-foreign-reported-success" }),
                                   "call": i, "name": "c2pa_free", "arg": format!("{kind:?}"), "returned": rc}));
                    }
                    if rc != 0 && last_error().is_empty() {
                        say(json!({"v": "no-error-message:c2pa_free", "call": i}));
                    }
                }
                26 => {
                    // type-specific free functions (all forward to the same free)
                    let t = *rr.pick(&[T::Reader, T::Builder, T::Stream, T::Signer, T::Str, T::Bytes, T::Settings]);
                    let (p, _kind) = m.pick(&mut rr, t, false);
                    match t {
                        T::Reader => c2pa_reader_free(p as *mut C2paReader),
                        T::Builder => c2pa_builder_free(p as *mut C2paBuilder),
                        T::Stream => c2pa_release_stream(p as *mut C2paStream),
                        T::Signer => c2pa_signer_free(p as *const C2paSigner),
                        T::Str => c2pa_string_free(p as *mut c_char),
                        T::Bytes => c2pa_manifest_bytes_free(p as *const u8),
                        _ => {
                            c2pa_free(p as *const c_void);
                        }
                    }
                    m.kill(p);
                }
                27 => {
                    let b = arg(&m, &mut rr, T::Builder);
                    c2pa_builder_set_no_embed(b as *mut C2paBuilder);
                }
                28 => {
                    let rd = arg(&m, &mut rr, T::Reader);
                    let _ = c2pa_reader_is_embedded(rd as *mut C2paReader);
                }
                30 => {
                    // a handle used on this thread, then freed by another thread
                    let t = *rr.pick(&[T::Settings, T::Builder, T::Ctx, T::CtxBuilder, T::Reader]);
                    let (p, kind) = m.pick(&mut rr, t, true);
                    if kind == ArgKind::Live {
                        match t {
                            T::Settings => {
                                let path = CString::new("verify.verify_after_sign").unwrap();
                                let val = CString::new("false").unwrap();
                                c2pa_settings_set_value(p as *mut C2paSettings, path.as_ptr(), val.as_ptr());
                            }
                            T::Builder => c2pa_builder_set_no_embed(p as *mut C2paBuilder),
                            T::Ctx => {
                                c2pa_context_cancel(p as *mut C2paContext);
                            }
                            T::Reader => {
                                let _ = c2pa_reader_is_embedded(p as *mut C2paReader);
                            }
                            _ => {}
                        }
                        let rc = std::thread::spawn(move || c2pa_free(p as *const c_void)).join().unwrap_or(-99);
                        m.kill(p);
                        m.recent = vec![p];
                        if rc != 0 {
                            say(json!({"v": "free-return-value:live-reported-error-on-other-thread", "call": i, "returned": rc}));
                        }
                    }
                }
                _ => {
                    // free the same live handle twice in a row
                    let t = *rr.pick(&[T::Reader, T::Builder, T::Ctx, T::Settings, T::Str]);
                    let (p, kind) = m.pick(&mut rr, t, true);
                    if kind == ArgKind::Live {
                        let a = c2pa_free(p as *const c_void);
                        let b = c2pa_free(p as *const c_void);
                        m.kill(p);
                        if a != 0 || b == 0 {
                            say(json!({"v": "double-free-not-reported", "call": i, "first": a, "second": b}));
                        }
                    }
                }
            }
        }
        if !args.is_empty() {
            m.recent = args.iter().map(|a| a.0).filter(|p| *p != 0 && !m.foreign.contains(p)).collect();
        }
        // consumption first, then the handles this call returned: the allocator may hand the
        // consumed address straight back
        for p in consumed {
            m.kill(p);
        }
        for (p, t) in issued {
            m.issue(p, t);
        }
        // misuse must have been reported
        let misuse: Vec<String> = args.iter().filter(|(p, kind, t)| *kind != ArgKind::Live || !(m.live(*p, *t) || true)).filter(|(_, kind, _)| *kind != ArgKind::Live).map(|(_, kind, t)| format!("{t:?}:{kind:?}")).collect();
        if !misuse.is_empty() {
            if let Some(e) = err {
                if !e {
                    say(json!({"v": format!("misuse-not-reported:{}", call_name(k)), "call": i, "args": misuse}));
                } else if last_error().is_empty() {
                    say(json!({"v": format!("no-error-message:{}", call_name(k)), "call": i, "args": misuse}));
                }
            }
            say(json!({"m": misuse.len()}));
        }
    }
    say(json!({"done": true}));
}

impl Property for C31 {
    fn meta(&self) -> Meta {
        Meta {
            id: "C31",
            level: "exploration",
            rule: "one evaluation = one history of 5-40 calls over 30 exported C functions (plus a free performed by a second thread) of the real c2pa-c-ffi rlib (constructors for settings / context builder / context / reader / builder / stream / signer, setters, consuming *_with_* / build / set_signer calls, sign / read / archive / ingredient / resource calls on tiny assets through C2paStreams, string getters, c2pa_free and every type-specific free), executed in a forked child. Each handle argument is drawn from {live handle of the right type, live handle of a wrong type, freed handle, handle consumed by an earlier call, a handle argument of the immediately preceding call whatever its state now, NULL, foreign pointer to a simulator-owned 4 KiB buffer}; strings, lengths and out-pointers are always valid. Model: address -> (type, live); constructors set live (so allocator address reuse is accounted for), consuming calls and frees clear. Oracle: a call with any misused handle returns its error indicator (NULL / negative) and c2pa_error() is non-empty; c2pa_free returns 0 exactly for live-or-NULL; a double free reports an error; the child never dies by a signal. Non-trivial = history contained a misuse; distinct = history",
            assumptions: &["only handle parameters are misused", "functions returning void or bool have no error indicator and are only required not to crash", "no concurrent frees (the API documents that as unsupported)"],
            real: &["c2pa-c-ffi: all exercised extern \"C\" functions, cimpl pointer registry, c2pa SDK underneath"],
            stubbed: &["C caller (simulator), stream callbacks over an in-memory cursor"],
            crash_prop: "C31",
        }
    }

    fn runs(&self, tier: Tier) -> u64 {
        match tier {
            Tier::Quick => 16 * 60,
            Tier::Thorough => 16 * 8000,
        }
    }

    fn supports_mask(&self) -> bool {
        true
    }

    fn run(&self, rc: &mut RunCtx) -> RunOut {
        let mut out = RunOut::default();
        let mut r = rc.rng.fork("w");
        let n_calls = r.usize(5, 40);
        out.n_ops = n_calls;
        let seed = r.next_u64();
        let mask = rc.mask.clone();
        // fork: the child runs the history and reports JSON lines through a pipe
        let mut fds = [0i32; 2];
        if unsafe { libc::pipe(fds.as_mut_ptr()) } != 0 {
            out.harness_error = Some("pipe failed".into());
            return out;
        }
        let pid = unsafe { libc::fork() };
        if pid < 0 {
            out.harness_error = Some("fork failed".into());
            return out;
        }
        if pid == 0 {
            unsafe {
                libc::close(fds[0]);
                // child: quiet stderr, run, exit without unwinding into the harness
                let devnull = libc::open(b"/dev/null\0".as_ptr() as *const c_char, libc::O_WRONLY);
                if devnull >= 0 {
                    libc::dup2(devnull, 2);
                }
            }
            let wfd = fds[1];
            let mut say = |v: Value| {
                let mut s = v.to_string();
                s.push('\n');
                unsafe {
                    libc::write(wfd, s.as_ptr() as *const c_void, s.len());
                }
            };
            let res = std::panic::catch_unwind(std::panic::AssertUnwindSafe(|| run_history(seed, n_calls, &mask, &mut say)));
            if res.is_err() {
                let p = sdk::LAST_PANIC.lock().map(|g| g.clone()).unwrap_or_default();
                say(json!({"v": format!("panic:{}", p.split('|').next().unwrap_or("?")), "panic": p}));
            }
            unsafe { libc::_exit(0) };
        }
        unsafe { libc::close(fds[1]) };
        let mut text = String::new();
        {
            use std::os::fd::FromRawFd;
            let mut f = unsafe { std::fs::File::from_raw_fd(fds[0]) };
            let _ = f.read_to_string(&mut text);
        }
        let mut status = 0i32;
        unsafe { libc::waitpid(pid, &mut status, 0) };
        out.evals += 1;
        let mut last_call: Option<(u64, String)> = None;
        let mut calls: Vec<String> = Vec::new();
        let mut misuses = 0u64;
        let mut done = false;
        for l in text.lines() {
            let Ok(v) = serde_json::from_str::<Value>(l) else { continue };
            if let Some(c) = v.get("c").and_then(|c| c.as_u64()) {
                let n = v["n"].as_str().unwrap_or("").to_string();
                calls.push(n.clone());
                last_call = Some((c, n));
            }
            if let Some(k) = v.get("m").and_then(|m| m.as_u64()) {
                misuses += k;
            }
            if v.get("done").is_some() {
                done = true;
            }
            if let Some(fp) = v.get("v").and_then(|x| x.as_str()) {
                out.violate(v.get("call").and_then(|c| c.as_u64()).unwrap_or(0), fp, "C31 misuse is reported with an error indicator and message; free returns 0 exactly for live or NULL",
                    json!({"report": v, "history": calls}));
            }
        }
        out.probe_n("handle_misuses", misuses);
        out.probe_n("calls", calls.len() as u64);
        if misuses > 0 {
            out.fault("handle_misuse");
            out.keys.push(hash_str(&format!("{seed}|{:?}", mask)));
        }
        let signaled = libc::WIFSIGNALED(status);
        if signaled || !done {
            let sig = if signaled { libc::WTERMSIG(status) } else { 0 };
            let (ci, cn) = last_call.clone().unwrap_or((0, "?".into()));
            out.violate(ci, &format!("crash:{}:signal{sig}", cn), "C31 handle misuse never crashes the process",
                json!({"signal": sig, "at_call": ci, "function": cn, "history": calls}));
        }
        out.sample = Some(json!({"calls": calls, "misuses": misuses}));
        out.digest = hash_str(&format!("{seed}|{:?}", calls)); // not the misuse count: whether a freed address was reissued is up to the allocator
        out
    }
}
