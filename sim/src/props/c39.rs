//! C39 — ingredients carry their source manifests and validation faithfully.
//! Two-stage pipeline with a storage fault between the stages.

use std::sync::Arc;

use c2pa::Builder;
use serde_json::{json, Value};

use crate::{
    assets::{self, Fmt},
    corrupt::Fault,
    harness::{Meta, Property, RunCtx, RunOut, Tier},
    jumbf,
    report::err_kind,
    rng::{hash_str, Rng},
    sdk,
    stream::{self, FaultPlan, SimStream},
};

pub struct C39;

fn codes_of(v: &Value, bucket: &str) -> Vec<String> {
    let mut out = Vec::new();
    if let Some(a) = v.get(bucket).and_then(|x| x.as_array()) {
        for i in a {
            out.push(format!(
                "{}|{}",
                i.get("code").and_then(|c| c.as_str()).unwrap_or("?"),
                i.get("url").and_then(|c| c.as_str()).unwrap_or("")
            ));
        }
    }
    out.sort();
    out
}

impl Property for C39 {
    fn meta(&self) -> Meta {
        Meta {
            id: "C39",
            level: "exploration",
            rule: "one evaluation = a two-stage pipeline on the real SDK: stage 1 signs asset A (any of 11 formats); a simulated disk then leaves A intact, applies one seeded stored-byte fault (flip / truncate / insert / delete / append, inside or outside the manifest), or A is unsigned; stage 2 reads A alone (reference) and adds A as parentOf / componentOf / inputTo ingredient of B through a SimStream with seeded benign chunking, signs B and reads B. Oracle: when A's store bytes are untouched, every manifest box of A appears byte-for-byte among the manifest boxes of B's store (simulator's own JUMBF walker); the ingredient's recorded failure-code multiset equals that of the reference read; an unsigned A records no manifest and no failure. Each run ends with ingredient sets whose stores overlap - the same asset twice, an asset and one that already carries it, an asset and a tampered copy of it under the same manifest label, in both orders - with the same two clauses per ingredient and the count of reported ingredients. JPEG runs also take one real-world asset of the repository's fixtures (long chains, version-1 claims with legacy ingredient assertions, update manifests, box hash, OCSP) as the ingredient, once directly and once through Builder::to_archive / with_archive (where the ingredient's manifest data is rebuilt from a loaded store): validation state and failure codes of the resulting asset agree. Non-trivial = pipeline completed; distinct = (format, relationship, fault)",
            assumptions: &[
                "label conflicts (same manifest label, different content already in B) are not generated",
                "when the reference read of A fails outright nothing is demanded of the ingredient record",
            ],
            real: &["c2pa SDK ingredient import, store merge, signing, validation"],
            stubbed: &["storage between the stages", "ingredient stream (SimStream, benign chunking)"],
            crash_prop: "C10",
        }
    }

    fn runs(&self, tier: Tier) -> u64 {
        match tier {
            Tier::Quick => 11 * 132,
            Tier::Thorough => 11 * 3000,
        }
    }

    fn run(&self, rc: &mut RunCtx) -> RunOut {
        let mut out = RunOut::default();
        let fmt: Fmt = assets::ALL[(rc.idx % 11) as usize];
        let ctx = Arc::new(sdk::make_context(&json!({})));
        let mut ar = rc.rng.fork("asset");
        let a_asset = assets::generate(fmt, &mut ar);
        let b_asset = assets::generate(fmt, &mut ar);
        let a_signed = match sdk::sign_plain(&ctx, &sdk::simple_definition("A"), "ed25519", fmt.mime(), &a_asset) {
            Ok(s) => s,
            Err(e) => {
                out.harness_error = Some(format!("sign A {}: {e}", fmt.name()));
                return out;
            }
        };
        let a_signed = rc.artefact("a_signed", || a_signed.clone());
        let a_store = c2pa::jumbf_io::load_jumbf_from_memory(fmt.mime(), &a_signed).unwrap_or_default();
        let store_at = if a_store.len() > 16 { jumbf::find_sub(&a_signed, &a_store[8..]) } else { None };
        let n_cases = match rc.tier {
            Tier::Quick => 24,
            Tier::Thorough => 40,
        };
        for c in 0..n_cases {
            let sub = c as u64;
            // all draws unconditional
            let rel = *rc.rng.pick(&["parentOf", "componentOf", "inputTo"]);
            let kind = rc.rng.below(10);
            let mut pos = rc.rng.usize(0, a_signed.len() - 1);
            let outside = rc.rng.chance(1, 2);
            let opos = rc.rng.below(1 << 30) as usize;
            if let (true, Some(at)) = (outside, store_at) {
                // half of the faults land in the media bytes (outside the manifest store)
                let end = at + a_store.len() - 8;
                let free = a_signed.len() - (end - at);
                if free > 0 {
                    let k = opos % free;
                    pos = if k < at { k } else { k + (end - at) };
                }
            }
            let pat = rc.rng.below(4) as u8;
            let chunk = 1 + rc.rng.below(48) as usize;
            let crng = rc.rng.fork("chunk");
            if !rc.want_sub(sub) {
                continue;
            }
            rc.mark(sub);
            let (a_bytes, what): (Vec<u8>, String) = match (c, kind) {
                (0, _) => (a_signed.clone(), "intact".into()),
                (1, _) => (a_asset.clone(), "unsigned".into()),
                (_, 0..=4) => {
                    let f = Fault::Flip { pos, pat };
                    match f.apply(&a_signed) {
                        Some(b) => (b, f.describe()),
                        None => continue,
                    }
                }
                (_, 5) => (Fault::Truncate { len: pos }.apply(&a_signed).unwrap_or_default(), format!("Truncate {{ len: {pos} }}")),
                (_, 6) => (Fault::Insert { pos, byte: 0x41 }.apply(&a_signed).unwrap_or_default(), format!("Insert {{ pos: {pos} }}")),
                (_, 7) => (Fault::Delete { pos }.apply(&a_signed).unwrap_or_default(), format!("Delete {{ pos: {pos} }}")),
                (_, 8) => (Fault::Append { n: 8, seed: 3 }.apply(&a_signed).unwrap_or_default(), "Append 8".into()),
                _ => (a_signed.clone(), "intact".into()),
            };
            if a_bytes.is_empty() {
                continue;
            }
            out.evals += 1;
            out.fault(what.split_whitespace().next().unwrap_or("intact").trim_end_matches('{'));
            let tag = format!("{}:{rel}", fmt.name());
            // reference: read A alone
            let reference = sdk::guarded(|| sdk::read_plain(&ctx, fmt.mime(), &a_bytes));
            let reference = match reference {
                Ok(r) => r,
                Err(p) => {
                    out.violate(sub, &format!("panic:{}", p.split('|').next().unwrap_or("?")), "G1 no panic", json!({"scenario": tag, "fault": what, "panic": p}));
                    continue;
                }
            };
            // stage 2: add as ingredient through a chunking stream, sign B, read B
            let world = stream::new_world(FaultPlan { max_chunk: chunk, ..Default::default() }, Some(crng));
            let r = sdk::guarded(|| -> Result<Vec<u8>, String> {
                let mut b = Builder::from_shared_context(&ctx).with_definition(sdk::simple_definition("B")).map_err(|e| err_kind(&e))?;
                let mut s = SimStream::new(&world, 0, a_bytes.clone());
                b.add_ingredient_from_stream(json!({"title": "ing", "relationship": rel}).to_string(), fmt.mime(), &mut s)
                    .map_err(|e| format!("add:{}", err_kind(&e)))?;
                let mut d = std::io::Cursor::new(Vec::new());
                b.sign(sdk::make_signer("ed25519").as_ref(), fmt.mime(), &mut std::io::Cursor::new(b_asset.clone()), &mut d)
                    .map_err(|e| format!("signB:{}", err_kind(&e)))?;
                Ok(d.into_inner())
            });
            out.steps += stream::stats(&world).ops;
            let b_signed = match r {
                Err(p) => {
                    out.violate(sub, &format!("panic:{}", p.split('|').next().unwrap_or("?")), "G1 no panic", json!({"scenario": tag, "fault": what, "panic": p}));
                    continue;
                }
                Ok(Err(e)) => {
                    out.probe(&format!("pipeline-refused:{}:{}:{}", e, rel, if what == "intact" || what == "unsigned" { what.as_str() } else { "faulted" }));
                    continue;
                }
                Ok(Ok(b)) => b,
            };
            out.keys.push(hash_str(&format!("{tag}|{what}")));
            let b_rep = match sdk::read_plain(&ctx, fmt.mime(), &b_signed) {
                Ok(r) => r,
                Err(e) => {
                    out.probe(&format!("read-B-failed:{e}"));
                    continue;
                }
            };
            let ing = b_rep.active_manifest().and_then(|m| m.get("ingredients")).and_then(|i| i.as_array()).and_then(|a| a.first().cloned());
            let Some(ing) = ing else {
                out.violate(sub, "ingredient-missing-in-report", "C39 the ingredient is recorded", json!({"scenario": tag, "fault": what}));
                continue;
            };
            let ing_failures = ing.get("validation_results").and_then(|v| v.get("activeManifest")).map(|v| codes_of(v, "failure")).unwrap_or_default();
            let ing_has_manifest = ing.get("active_manifest").is_some();
            match &reference {
                Err(e) => {
                    out.probe(&format!("reference-read-err:{e}"));
                    if what == "unsigned" && (ing_has_manifest || !ing_failures.is_empty()) {
                        out.violate(sub, &format!("unsigned-ingredient-records-something:{}", fmt.name()),
                            "C39 an unsigned asset records no manifest and no failure",
                            json!({"scenario": tag, "ingredient": ing}));
                    }
                }
                Ok(a_rep) => {
                    let ref_failures = a_rep.json.get("validation_results").and_then(|v| v.get("activeManifest")).map(|v| codes_of(v, "failure")).unwrap_or_default();
                    if ref_failures != ing_failures {
                        // class of the difference: which codes are missing / extra
                        let missing: Vec<&String> = ref_failures.iter().filter(|c| !ing_failures.contains(c)).collect();
                        let extra: Vec<&String> = ing_failures.iter().filter(|c| !ref_failures.contains(c)).collect();
                        let cls = |v: &Vec<&String>| v.iter().map(|c| c.split('|').next().unwrap_or("").to_string()).collect::<std::collections::BTreeSet<_>>().into_iter().collect::<Vec<_>>().join("+");
                        out.violate(sub, &format!("ingredient-failures-differ:missing[{}]:extra[{}]", cls(&missing), cls(&extra)),
                            "C39 recorded failure codes = those of reading the ingredient on its own",
                            json!({"scenario": tag, "fault": what, "standalone_state": a_rep.state, "standalone_failures": ref_failures, "recorded_failures": ing_failures}));
                    } else {
                        out.probe(if ref_failures.is_empty() { "match:no-failures" } else { "match:with-failures" });
                    }
                    // manifests carried unchanged (only when A's store bytes are untouched)
                    let store_untouched = match store_at {
                        Some(at) => a_bytes.len() == a_signed.len() && a_bytes[at..at + a_store.len() - 8] == a_signed[at..at + a_store.len() - 8],
                        None => what == "intact",
                    };
                    if store_untouched && !a_store.is_empty() {
                        let b_store = c2pa::jumbf_io::load_jumbf_from_memory(fmt.mime(), &b_signed).unwrap_or_default();
                        let a_top = jumbf::parse(&a_store);
                        let b_top = jumbf::parse(&b_store);
                        let b_boxes: Vec<&[u8]> = b_top.first().map(|t| t.children.iter().map(|c| &b_store[c.start..c.end]).collect()).unwrap_or_default();
                        if let Some(t) = a_top.first() {
                            for m in t.children.iter().filter(|c| &c.typ == b"jumb") {
                                let raw = &a_store[m.start..m.end];
                                if !b_boxes.iter().any(|b| *b == raw) {
                                    out.violate(sub, &format!("ingredient-manifest-not-carried-unchanged:{}", fmt.name()),
                                        "C39 the parent's store contains the ingredient's manifests unchanged",
                                        json!({"scenario": tag, "fault": what, "manifest": m.label, "len": raw.len(),
                                               "b_manifests": b_top.first().map(|t| t.children.iter().map(|c| c.label.clone()).collect::<Vec<_>>())}));
                                } else {
                                    out.probe("manifest-carried-byte-identical");
                                }
                            }
                        }
                    }
                }
            }
        }
        // several ingredients whose stores overlap: the same asset twice, an asset and another one
        // that already carries it as an ingredient, an asset and a tampered copy of it (same
        // manifest label, different bytes: the merge has to relabel one of them)
        {
            let c_signed = sdk::guarded(|| -> Result<Vec<u8>, String> {
                let mut b = Builder::from_shared_context(&ctx).with_definition(sdk::simple_definition("C")).map_err(|e| err_kind(&e))?;
                b.add_ingredient_from_stream(json!({"title": "a-in-c", "relationship": "componentOf"}).to_string(), fmt.mime(), &mut std::io::Cursor::new(a_signed.clone())).map_err(|e| err_kind(&e))?;
                let mut d = std::io::Cursor::new(Vec::new());
                b.sign(sdk::make_signer("ed25519").as_ref(), fmt.mime(), &mut std::io::Cursor::new(b_asset.clone()), &mut d).map_err(|e| err_kind(&e))?;
                Ok(d.into_inner())
            }).ok().and_then(|r| r.ok());
            // tampered copy: one letter of the text in A's org.sim.note assertion (still decodable)
            let a_tampered = store_at.and_then(|at| {
                // CBOR: text(4) "note", text(1) "A"
                let q = jumbf::find_sub(&a_store, b"\x64note\x61A")? + 6;
                let p = at + q - 8;
                let mut m = a_signed.clone();
                *m.get_mut(p)? ^= 0x03;
                Some(m)
            });
            let mut combos: Vec<(&str, Vec<(Vec<u8>, bool)>)> = vec![("same-twice", vec![(a_signed.clone(), true), (a_signed.clone(), true)])];
            if let Some(c) = &c_signed {
                combos.push(("asset-and-its-container", vec![(a_signed.clone(), true), (c.clone(), true)]));
                combos.push(("container-then-asset", vec![(c.clone(), true), (a_signed.clone(), true)]));
            }
            if let Some(t) = &a_tampered {
                combos.push(("asset-and-tampered-copy", vec![(a_signed.clone(), true), (t.clone(), false)]));
                combos.push(("tampered-copy-then-asset", vec![(t.clone(), false), (a_signed.clone(), true)]));
            }
            for (ci, (name, sources)) in combos.iter().enumerate() {
                let sub = 1000 + ci as u64;
                if !rc.want_sub(sub) {
                    continue;
                }
                rc.mark(sub);
                out.evals += 1;
                out.fault("overlapping_ingredient_stores");
                out.keys.push(hash_str(&format!("{}|multi|{name}", fmt.name())));
                let tag = format!("{}:{name}", fmt.name());
                let refs: Vec<Result<crate::report::Report, String>> = sources.iter().map(|(b, _)| sdk::read_plain(&ctx, fmt.mime(), b)).collect();
                let r = sdk::guarded(|| -> Result<Vec<u8>, String> {
                    let mut b = Builder::from_shared_context(&ctx).with_definition(sdk::simple_definition("B")).map_err(|e| err_kind(&e))?;
                    for (i, (bytes, _)) in sources.iter().enumerate() {
                        b.add_ingredient_from_stream(json!({"title": format!("ing{i}"), "relationship": "componentOf"}).to_string(), fmt.mime(), &mut std::io::Cursor::new(bytes.clone()))
                            .map_err(|e| format!("add{i}:{}", err_kind(&e)))?;
                    }
                    let mut d = std::io::Cursor::new(Vec::new());
                    b.sign(sdk::make_signer("ed25519").as_ref(), fmt.mime(), &mut std::io::Cursor::new(b_asset.clone()), &mut d).map_err(|e| format!("signB:{}", err_kind(&e)))?;
                    Ok(d.into_inner())
                });
                let b_signed = match r {
                    Err(p) => {
                        out.violate(sub, &format!("panic:{}", p.split('|').next().unwrap_or("?")), "G1 no panic", json!({"scenario": tag, "panic": p}));
                        continue;
                    }
                    Ok(Err(e)) => {
                        out.probe(&format!("multi-refused:{name}:{e}"));
                        continue;
                    }
                    Ok(Ok(b)) => b,
                };
                let Ok(b_rep) = sdk::read_plain(&ctx, fmt.mime(), &b_signed) else {
                    out.probe(&format!("multi-read-B-failed:{name}"));
                    continue;
                };
                let ings: Vec<Value> = b_rep.active_manifest().and_then(|m| m.get("ingredients")).and_then(|i| i.as_array()).cloned().unwrap_or_default();
                if ings.len() != sources.len() {
                    out.violate(sub, &format!("ingredient-count-differs:{name}"), "C39 every ingredient added is recorded", json!({"scenario": tag, "added": sources.len(), "reported": ings.len()}));
                    continue;
                }
                for (i, rf) in refs.iter().enumerate() {
                    let Ok(a_rep) = rf else { continue };
                    let title = format!("ing{i}");
                    let Some(ing) = ings.iter().find(|x| x.get("title").and_then(|t| t.as_str()) == Some(&title)) else {
                        out.violate(sub, &format!("ingredient-missing-in-report:{name}"), "C39 the ingredient is recorded", json!({"scenario": tag, "title": title}));
                        continue;
                    };
                    let ing_failures = ing.get("validation_results").and_then(|v| v.get("activeManifest")).map(|v| codes_of(v, "failure")).unwrap_or_default();
                    let ref_failures = a_rep.json.get("validation_results").and_then(|v| v.get("activeManifest")).map(|v| codes_of(v, "failure")).unwrap_or_default();
                    let strip = |v: &Vec<String>| v.iter().map(|c| c.split('|').next().unwrap_or("").to_string()).collect::<std::collections::BTreeSet<_>>();
                    if strip(&ing_failures) != strip(&ref_failures) {
                        out.violate(sub, &format!("ingredient-failures-differ:{name}:ingredient{i}"), "C39 recorded failure codes = those of reading the ingredient on its own",
                            json!({"scenario": tag, "ingredient": i, "standalone_failures": ref_failures, "recorded_failures": ing_failures}));
                    } else {
                        out.probe("multi:failures-match");
                    }
                }
                // every manifest of an untouched source is in B's store byte for byte
                let b_store = c2pa::jumbf_io::load_jumbf_from_memory(fmt.mime(), &b_signed).unwrap_or_default();
                let b_top = jumbf::parse(&b_store);
                let b_boxes: Vec<&[u8]> = b_top.first().map(|t| t.children.iter().map(|c| &b_store[c.start..c.end]).collect()).unwrap_or_default();
                for (i, (bytes, untouched)) in sources.iter().enumerate() {
                    if !*untouched {
                        continue;
                    }
                    let st = c2pa::jumbf_io::load_jumbf_from_memory(fmt.mime(), bytes).unwrap_or_default();
                    let top = jumbf::parse(&st);
                    if let Some(t) = top.first() {
                        for m in t.children.iter().filter(|c| &c.typ == b"jumb") {
                            if !b_boxes.iter().any(|b| *b == &st[m.start..m.end]) {
                                out.violate(sub, &format!("ingredient-manifest-not-carried-unchanged:{name}"), "C39 the parent's store contains the ingredient's manifests unchanged",
                                    json!({"scenario": tag, "ingredient": i, "manifest": m.label, "b_manifests": b_top.first().map(|t| t.children.iter().map(|c| c.label.clone()).collect::<Vec<_>>())}));
                            } else {
                                out.probe("multi:manifest-carried-byte-identical");
                            }
                        }
                    }
                }
            }
        }
        // real-world assets of the repository (long chains, version-1 claims with legacy ingredient
        // assertions, update manifests, box hashes): the ingredient goes in directly, and through
        // a builder archive (where its manifest data is rebuilt from a loaded store)
        if fmt == Fmt::Jpeg {
            const FIXTURES: [&str; 11] = ["CA.jpg", "CACA.jpg", "CACAE-uri-CA.jpg", "CIE-sig-CA.jpg", "adobe-20220124-E-clm-CAICAI.jpg", "legacy_ingredient_hash.jpg",
                "update_manifest.jpg", "boxhash.jpg", "ocsp.jpg", "XCA.jpg", "E-sig-CA.jpg"];
            let name = FIXTURES[((rc.idx / 11) % FIXTURES.len() as u64) as usize];
            let sub = 2000;
            if rc.want_sub(sub) {
                rc.mark(sub);
                match std::fs::read(format!("/repo/sdk/tests/fixtures/{name}")) {
                    Err(_) => out.probe("fixture_missing"),
                    Ok(a) if a.is_empty() => out.probe("fixture_empty"),
                    Ok(a) => {
                        out.evals += 1;
                        out.fault("real_world_ingredient");
                        out.keys.push(hash_str(&format!("fixture|{name}")));
                        let route = |via_archive: bool| -> Result<(String, Vec<String>, usize), String> {
                            let mut b = Builder::from_shared_context(&ctx).with_definition(sdk::simple_definition("B")).map_err(|e| err_kind(&e))?;
                            b.add_ingredient_from_stream(json!({"title": "ing", "relationship": "componentOf"}).to_string(), "image/jpeg", &mut std::io::Cursor::new(a.clone()))
                                .map_err(|e| format!("add:{}", err_kind(&e)))?;
                            if via_archive {
                                let mut ar = std::io::Cursor::new(Vec::new());
                                b.to_archive(&mut ar).map_err(|e| format!("to_archive:{}", err_kind(&e)))?;
                                ar.set_position(0);
                                b = Builder::from_shared_context(&ctx).with_archive(ar).map_err(|e| format!("with_archive:{}", err_kind(&e)))?;
                            }
                            let mut d = std::io::Cursor::new(Vec::new());
                            b.sign(sdk::make_signer("ed25519").as_ref(), "image/jpeg", &mut std::io::Cursor::new(b_asset.clone()), &mut d).map_err(|e| format!("signB:{}", err_kind(&e)))?;
                            let signed = d.into_inner();
                            let rep = sdk::read_plain(&ctx, "image/jpeg", &signed).map_err(|e| format!("readB:{e}"))?;
                            let ing = rep.active_manifest().and_then(|m| m.get("ingredients")).and_then(|i| i.as_array()).and_then(|a| a.first().cloned()).unwrap_or(Value::Null);
                            let mut fails: Vec<String> = ing.get("validation_results").and_then(|v| v.get("activeManifest")).map(|v| codes_of(v, "failure")).unwrap_or_default()
                                .iter().map(|c| c.split('|').next().unwrap_or("").to_string()).collect();
                            fails.extend(rep.failure_codes().iter().map(|c| format!("B:{c}")));
                            fails.sort();
                            let st = c2pa::jumbf_io::load_jumbf_from_memory("image/jpeg", &signed).unwrap_or_default();
                            let n_manifests = jumbf::parse(&st).first().map(|t| t.children.iter().filter(|c| &c.typ == b"jumb").count()).unwrap_or(0);
                            Ok((rep.state.clone(), fails, n_manifests))
                        };
                        let direct = sdk::guarded(|| route(false));
                        let archived = sdk::guarded(|| route(true));
                        match (direct, archived) {
                            (Ok(d), Ok(a2)) => {
                                out.probe(&format!("fixture:{name}:{}", match &d { Ok(x) => x.0.clone(), Err(e) => format!("err:{e}") }));
                                let same = match (&d, &a2) {
                                    (Ok(x), Ok(y)) => x.0 == y.0 && x.1 == y.1,
                                    (Err(x), Err(y)) => x == y,
                                    _ => false,
                                };
                                if !same {
                                    out.violate(sub, &format!("ingredient-through-archive-differs:{}", name.trim_end_matches(".jpg")),
                                        "C39 an ingredient keeps its manifests and validation results whichever way it reaches the builder",
                                        json!({"fixture": name, "direct": format!("{d:?}"), "through_archive": format!("{a2:?}")}));
                                } else {
                                    out.probe("fixture:routes-agree");
                                }
                            }
                            (Err(p), _) | (_, Err(p)) => out.violate(sub, &format!("panic:{}", p.split('|').next().unwrap_or("?")), "G1 no panic", json!({"fixture": name, "panic": p})),
                        }
                    }
                }
            }
        }
        out.sample = Some(json!({"scenario": format!("{} pipeline", fmt.name()), "a_len": a_signed.len(), "cases": n_cases, "probes": out.probes}));
        out.digest = hash_str(&format!("{}|{}|{:?}", fmt.name(), out.evals, out.probes));
        out
    }
}
