//! C24 — contexts are isolated and safe to share across threads.
//! Turnstile-scheduled caller threads over shared / private contexts; the sequential execution
//! of the same per-thread operation lists is the reference model.

use std::sync::Arc;

use serde_json::{json, Value};

use crate::{
    assets::{self, Fmt},
    harness::{Meta, Property, RunCtx, RunOut, Tier},
    ops::{self, ExecEnv, Op, Outcome, Scenario},
    rng::{hash_str, Rng},
    sdk,
    stream::{self, FaultPlan},
    turnstile,
};

pub struct C24;

#[derive(Clone, Debug)]
enum TOp {
    /// SDK operation on context `ctx`
    Sdk { op: Op, ctx: usize, fmt: Fmt },
    /// build settings values (must not touch any thread's legacy thread-local settings)
    BuildSettings(u64),
    /// set this thread's legacy thread-local settings
    Legacy(u64),
    /// cancel the cancellable context
    Cancel,
}

fn overlay_for(i: usize) -> Value {
    match i % 3 {
        // 0: trust configured -> Trusted; 1: no anchors -> Valid; 2: trust, cancellable
        1 => json!({"trust": {"trust_anchors": null, "trust_config": null}}),
        _ => json!({}),
    }
}

fn legacy_toml(n: u64) -> String {
    format!("version = 1\n[core]\nmerkle_tree_max_proofs = {}\n", 3 + n % 50)
}

/// global event sequence of the concurrent run (one thread runs at a time under the turnstile,
/// so invocation and completion stamps are totally ordered)
static SEQ: std::sync::atomic::AtomicU64 = std::sync::atomic::AtomicU64::new(1);
static CANCEL_DONE: std::sync::atomic::AtomicU64 = std::sync::atomic::AtomicU64::new(0);

fn is_cancelled_err(o: &Outcome) -> bool {
    o.err_kind().map(|e| e.ends_with("OperationCancelled")).unwrap_or(false)
}

struct Pool {
    ctxs: Vec<Arc<c2pa::Context>>,
    vctxs: Vec<Arc<c2pa::Context>>,
}

fn make_pool(n: usize) -> Pool {
    let mut ctxs = Vec::new();
    let mut vctxs = Vec::new();
    for i in 0..n {
        let o = overlay_for(i);
        ctxs.push(ops::make_ctx(&o));
        vctxs.push(Arc::new(sdk::make_context(&o)));
    }
    Pool { ctxs, vctxs }
}

fn run_list(list: &[TOp], pool: &Pool, scen: &std::collections::BTreeMap<(u8, String), Scenario>, yield_on_op: bool) -> (Vec<Outcome>, String, Vec<u64>) {
    use std::sync::atomic::Ordering::SeqCst;
    let mut outs = Vec::new();
    let mut invoked = Vec::new();
    for t in list {
        invoked.push(SEQ.fetch_add(1, SeqCst));
        match t {
            TOp::Sdk { op, ctx, fmt } => {
                let sc = &scen[&(*op as u8, fmt.name().to_string())];
                let world = stream::new_world(FaultPlan::default(), None);
                world.lock().unwrap().yield_on_op = yield_on_op;
                ops::cb_reset(Some(world.clone()), None);
                let o = ops::exec(sc, &ExecEnv { ctx: &pool.ctxs[*ctx], verify_ctx: &pool.vctxs[*ctx], world: &world, pend: None });
                ops::cb_reset(None, None);
                outs.push(o);
            }
            TOp::BuildSettings(n) => {
                // building settings values and contexts, in every form the API offers, never
                // touches the calling thread's legacy thread-local settings
                #[allow(deprecated)]
                let before = c2pa::Settings::to_toml().unwrap_or_default();
                let r: Result<(), String> = match n % 4 {
                    0 => c2pa::Settings::new()
                        .with_json(&json!({"core": {"merkle_tree_max_proofs": 100 + n % 7}}).to_string())
                        .and_then(|s| s.with_value("verify.ocsp_fetch", n % 2 == 0))
                        .map(|_| ())
                        .map_err(|e| crate::report::err_kind(&e)),
                    1 => c2pa::Context::new()
                        .with_settings(format!("[core]\nmerkle_tree_max_proofs = {}\n[verify]\nverify_trust = false\n", 100 + n % 7).as_str())
                        .map(|_| ())
                        .map_err(|e| crate::report::err_kind(&e)),
                    2 => c2pa::Context::new()
                        .with_settings(json!({"core": {"merkle_tree_max_proofs": 100 + n % 7}, "verify": {"verify_trust": false}}).to_string().as_str())
                        .map(|_| ())
                        .map_err(|e| crate::report::err_kind(&e)),
                    _ => c2pa::Settings::new()
                        .with_toml(&format!("[core]\nmerkle_tree_max_proofs = {}\n", 100 + n % 7))
                        .map(|_| ())
                        .map_err(|e| crate::report::err_kind(&e)),
                };
                turnstile::yield_point("settings");
                #[allow(deprecated)]
                let after = c2pa::Settings::to_toml().unwrap_or_default();
                outs.push(if before != after {
                    Outcome::Err("builder-changed-thread-local-settings".into())
                } else {
                    match r {
                        Ok(_) => Outcome::Unit,
                        Err(e) => Outcome::Err(e),
                    }
                });
            }
            TOp::Legacy(n) => {
                #[allow(deprecated)]
                let r = c2pa::Settings::from_toml(&legacy_toml(*n));
                turnstile::yield_point("legacy");
                outs.push(match r {
                    Ok(_) => Outcome::Unit,
                    Err(e) => Outcome::Err(crate::report::err_kind(&e)),
                });
            }
            TOp::Cancel => {
                pool.ctxs[2].cancel();
                CANCEL_DONE.store(SEQ.fetch_add(1, SeqCst), SeqCst);
                turnstile::note("cancel");
                outs.push(Outcome::Unit);
            }
        }
    }
    #[allow(deprecated)]
    let tl = c2pa::Settings::to_toml().unwrap_or_else(|e| format!("ERR {e:?}"));
    (outs, tl, invoked)
}

impl Property for C24 {
    fn meta(&self) -> Meta {
        Meta {
            id: "C24",
            level: "exploration",
            rule: "one evaluation = one concurrent execution, under the turnstile scheduler (real threads, one runnable, next chosen by the PRNG at every stream call / progress callback / explicit point), of 2-6 caller threads each running a seeded list of 2-5 operations (sign, read, add-ingredient on JPEG/PNG/MP4; Settings builder calls; deprecated thread-local Settings::from_toml; Context::cancel on the one cancellable context) over a pool of shared Arc<Context>s with different settings (trust anchors / none / cancellable) and private contexts. Reference = the same per-thread lists run one thread after another on fresh equally configured contexts without the cancel. Oracle: every operation on a never-cancelled context yields the reference outcome (same error kind, or same report/codes); operations on the cancellable context yield the reference outcome or OperationCancelled, and those invoked after cancel() had returned (global event sequence) yield OperationCancelled; the cancelled context still reports is_cancelled at the end; each thread's legacy thread-local settings at the end equal the reference's. Every eighth run is a cancel sweep instead: operation A (read / add-ingredient / sign) on a fresh context with Context::cancel delivered at every one of its stream calls and progress callbacks in turn (the schedules in which the canceller runs exactly there), then a read B on the same context: A yields its sequential result or OperationCancelled, the context reports is_cancelled, B yields OperationCancelled. Every eighth run (another residue) interleaves two operations on one context at a checkpoint: while A is paused in its k-th progress callback the context is cancelled and a read B runs to its end on the same context, for every k; both end with the cancellation error. Non-trivial = at least two threads interleaved; distinct = interleaving signature (hash of the (thread, seam label) sequence)",
            assumptions: &["scheduling granularity is the seam call, not the memory model", "contexts are created before the threads start (Context::new snapshots thread-local legacy settings of the creating thread)"],
            real: &["c2pa Context (Arc-shared), Builder, Reader, Settings, thread-local legacy settings, OpenSSL mutex, lazy statics"],
            stubbed: &["thread scheduling (turnstile)", "caller streams (SimStream)"],
            crash_prop: "C24",
        }
    }

    fn runs(&self, tier: Tier) -> u64 {
        match tier {
            Tier::Quick => 96 * 8,
            Tier::Thorough => 96 * 300,
        }
    }

    fn run(&self, rc: &mut RunCtx) -> RunOut {
        let mut out = RunOut::default();
        if rc.idx % 8 == 7 {
            return cancel_sweep(rc);
        }
        if rc.idx % 8 == 3 {
            let mut out = RunOut::default();
            interleaved_cancel(rc, &mut out, "C24", 0);
            out.digest = hash_str(&format!("interleave|{}", out.evals));
            return out;
        }
        let mut r = rc.rng.fork("w");
        let n_threads = r.usize(2, 6);
        let n_ctx = 3 + n_threads; // 0,1,2 shared; 3.. private per thread
        let fmts = [Fmt::Jpeg, Fmt::Png, Fmt::Mp4];
        // scenarios (prepared fault-free, shared read-only)
        let base = Arc::new(sdk::make_context(&json!({})));
        c2pa::verif::set_random_seed(Some(hash_str(&format!("c24-{}-{}", rc.seed, rc.idx))));
        let mut scen: std::collections::BTreeMap<(u8, String), Scenario> = Default::default();
        for f in fmts {
            let asset = assets::generate(f, &mut r);
            for op in [Op::Sign, Op::Read, Op::AddIngredient] {
                match ops::prepare(op, f, "ed25519", asset.clone(), sdk::simple_definition("c24"), &base) {
                    Ok(s) => {
                        scen.insert((op as u8, f.name().to_string()), s);
                    }
                    Err(e) => {
                        out.harness_error = Some(format!("prepare: {e}"));
                        return out;
                    }
                }
            }
        }
        let scen = Arc::new(scen);
        // per-thread lists
        let mut lists: Vec<Vec<TOp>> = Vec::new();
        let canceller = if r.chance(1, 2) { Some(r.below(n_threads as u64) as usize) } else { None };
        for t in 0..n_threads {
            let n = r.usize(2, 5);
            let mut l = Vec::new();
            for _ in 0..n {
                let k = r.below(10);
                let ctx = match r.below(5) {
                    0 => 0,
                    1 => 1,
                    2 => 2,
                    _ => 3 + t,
                };
                let fmt = *r.pick(&fmts);
                l.push(match k {
                    0..=2 => TOp::Sdk { op: Op::Sign, ctx, fmt },
                    3..=5 => TOp::Sdk { op: Op::Read, ctx, fmt },
                    6 => TOp::Sdk { op: Op::AddIngredient, ctx, fmt },
                    7 => TOp::BuildSettings(r.below(1000)),
                    _ => TOp::Legacy(r.below(1000)),
                });
            }
            if canceller == Some(t) {
                let at = r.usize(0, l.len());
                l.insert(at, TOp::Cancel);
            }
            lists.push(l);
        }
        // reference: sequential, fresh contexts, fresh OS thread per list, no cancel
        let mut reference: Vec<(Vec<Outcome>, String, Vec<u64>)> = Vec::new();
        {
            let pool = Arc::new(make_pool(n_ctx));
            for l in &lists {
                let l2: Vec<TOp> = l.iter().filter(|o| !matches!(o, TOp::Cancel)).cloned().collect();
                let p = pool.clone();
                let s = scen.clone();
                let h = std::thread::spawn(move || run_list(&l2, &p, &s, false));
                match h.join() {
                    Ok(x) => reference.push(x),
                    Err(_) => {
                        out.harness_error = Some("reference run panicked".into());
                        return out;
                    }
                }
            }
        }
        // concurrent run under the turnstile
        let pool = Arc::new(make_pool(n_ctx));
        SEQ.store(1, std::sync::atomic::Ordering::SeqCst);
        CANCEL_DONE.store(0, std::sync::atomic::Ordering::SeqCst);
        let sched = rc.rng.fork("sched");
        turnstile::begin(sched, rc.schedule_in.clone(), 3);
        let mut handles = Vec::new();
        for l in &lists {
            let l = l.clone();
            let p = pool.clone();
            let s = scen.clone();
            handles.push(turnstile::spawn(move || run_list(&l, &p, &s, true)));
        }
        turnstile::join_all();
        let tso = turnstile::end();
        out.evals += 1;
        out.interleavings.push(tso.trace_digest);
        out.keys.push(tso.trace_digest);
        out.probe_n("turnstile_events", tso.events);
        out.probe_n("turnstile_switches", tso.switches);
        out.probe_n("threads", n_threads as u64);
        out.steps += tso.events;
        let descr = |l: &Vec<TOp>| l.iter().map(|o| match o {
            TOp::Sdk { op, ctx, fmt } => format!("{}({},ctx{ctx})", op.name(), fmt.name()),
            TOp::BuildSettings(_) => "build-settings".into(),
            TOp::Legacy(n) => format!("legacy-toml({n})"),
            TOp::Cancel => "cancel(ctx2)".into(),
        }).collect::<Vec<_>>();
        for (t, h) in handles.into_iter().enumerate() {
            let (outs, tl, invoked) = match h.join() {
                Ok(x) => x,
                Err(_) => {
                    out.schedule = Some(tso.decisions.clone());
                    out.violate(t as u64, "panic:concurrent-run", "C24 no panic under concurrency", json!({"thread": t, "list": descr(&lists[t])}));
                    continue;
                }
            };
            let (r_outs, r_tl, _) = &reference[t];
            let cancel_done = CANCEL_DONE.load(std::sync::atomic::Ordering::SeqCst);
            let mut ri = 0;
            for (i, o) in lists[t].iter().enumerate() {
                if matches!(o, TOp::Cancel) {
                    continue;
                }
                let want = &r_outs[ri];
                ri += 1;
                let got = &outs[i];
                let on_cancellable = matches!(o, TOp::Sdk { ctx: 2, .. }) && canceller.is_some();
                // an operation invoked after cancel() returned is cancelled in every sequential order
                let after_cancel = on_cancellable && cancel_done > 0 && invoked[i] > cancel_done;
                if after_cancel {
                    out.probe("op_invoked_after_cancel");
                    if !is_cancelled_err(got) {
                        out.schedule = Some(tso.decisions.clone());
                        out.violate(t as u64, "cancel-lost:op-after-cancel-not-cancelled", "C24 an operation started on a context after cancel() returned reports OperationCancelled, as in every sequential order",
                            json!({"thread": t, "op_index": i, "lists": lists.iter().map(descr).collect::<Vec<_>>(), "concurrent": got.brief(), "canceller": canceller}));
                        continue;
                    }
                }
                if got.err_kind() == Some("builder-changed-thread-local-settings") {
                    out.schedule = Some(tso.decisions.clone());
                    out.violate(t as u64, "thread-local-settings-leak:settings-or-context-builder", "C24 building settings values never changes the legacy thread-local settings of any thread",
                        json!({"thread": t, "op_index": i, "lists": lists.iter().map(descr).collect::<Vec<_>>()}));
                    continue;
                }
                let ok = got == want || (on_cancellable && is_cancelled_err(got));
                if on_cancellable && is_cancelled_err(got) {
                    out.fault("cross_thread_cancel_observed");
                }
                if !ok {
                    let opn = match o {
                        TOp::Sdk { op, .. } => op.name(),
                        TOp::BuildSettings(_) => "build-settings",
                        TOp::Legacy(_) => "legacy",
                        TOp::Cancel => "cancel",
                    };
                    out.schedule = Some(tso.decisions.clone());
                    out.violate(t as u64, &format!("concurrent-differs-from-sequential:{opn}"), "C24 concurrent operations produce exactly the results of running them sequentially",
                        json!({"thread": t, "op_index": i, "lists": lists.iter().map(descr).collect::<Vec<_>>(), "sequential": want.brief(), "concurrent": got.brief(), "canceller": canceller}));
                }
            }
            if &tl != r_tl {
                out.schedule = Some(tso.decisions.clone());
                out.violate(t as u64, "thread-local-settings-leak", "C24 building settings / other threads never change a thread's legacy thread-local settings",
                    json!({"thread": t, "lists": lists.iter().map(descr).collect::<Vec<_>>()}));
            }
        }
        if canceller.is_some() && CANCEL_DONE.load(std::sync::atomic::Ordering::SeqCst) > 0 && !pool.ctxs[2].is_cancelled() {
            out.schedule = Some(tso.decisions.clone());
            out.violate(99, "cancel-lost:flag-cleared", "C24 a cancelled context stays cancelled (is_cancelled)",
                json!({"lists": lists.iter().map(descr).collect::<Vec<_>>(), "canceller": canceller}));
        }
        out.fault("seeded_interleaving");
        out.sample = Some(json!({"threads": n_threads, "lists": lists.iter().map(descr).collect::<Vec<_>>(), "seam_events": tso.events, "switches": tso.switches, "canceller": canceller}));
        out.digest = tso.trace_digest;
        let _ = Rng::new(0);
        out
    }
}

/// Cancellation from another party landing at every seam event of an operation A (every stream
/// call, every progress callback) - the schedules in which the canceller thread runs exactly
/// there - followed by a read B on the same context.
fn cancel_sweep(rc: &mut RunCtx) -> RunOut {
    let mut out = RunOut::default();
    let mut r = rc.rng.fork("sweep");
    let fmt = *r.pick(&[Fmt::Jpeg, Fmt::Png, Fmt::Mp4, Fmt::Gif, Fmt::Wav]);
    let op = *r.pick(&[Op::Read, Op::Read, Op::AddIngredient, Op::Sign]);
    let base = Arc::new(sdk::make_context(&json!({})));
    c2pa::verif::set_random_seed(Some(hash_str(&format!("c24-sweep-{}-{}", rc.seed, rc.idx))));
    let asset = assets::generate(fmt, &mut r);
    let (sa, sb) = match (
        ops::prepare(op, fmt, "ed25519", asset.clone(), sdk::simple_definition("c24"), &base),
        ops::prepare(Op::Read, fmt, "ed25519", asset, sdk::simple_definition("c24"), &base),
    ) {
        (Ok(a), Ok(b)) => (a, b),
        (Err(e), _) | (_, Err(e)) => {
            out.harness_error = Some(format!("prepare: {e}"));
            return out;
        }
    };
    let vctx = Arc::new(sdk::make_context(&json!({})));
    // dry run: count seam events and take the reference outcome
    let run_a = |at_op: Option<u64>, at_cb: Option<usize>| -> (Outcome, Outcome, bool, u64, usize) {
        let ctx = ops::make_ctx(&json!({}));
        let world = stream::new_world(FaultPlan::default(), None);
        if let Some(k) = at_op {
            world.lock().unwrap().cancel_at_op = Some((k, ctx.clone()));
        }
        ops::cb_reset(Some(world.clone()), None);
        if let Some(k) = at_cb {
            ops::CB.with(|c| c.borrow_mut().flag_at = Some((k, ctx.clone())));
        }
        let a = ops::exec(&sa, &ExecEnv { ctx: &ctx, verify_ctx: &vctx, world: &world, pend: None });
        let n_ops = stream::stats(&world).ops;
        let n_cb = ops::cb_take_log().len();
        let flagged = ctx.is_cancelled();
        let world_b = stream::new_world(FaultPlan::default(), None);
        ops::cb_reset(Some(world_b.clone()), None);
        let b = ops::exec(&sb, &ExecEnv { ctx: &ctx, verify_ctx: &vctx, world: &world_b, pend: None });
        ops::cb_reset(None, None);
        (a, b, flagged, n_ops, n_cb)
    };
    let (ref_a, ref_b, _, n_ops, n_cb) = run_a(None, None);
    let tag = format!("{}:{}", op.name(), fmt.name());
    let mut points: Vec<(bool, u64)> = (0..n_ops).map(|k| (true, k)).collect();
    points.extend((1..=n_cb as u64).map(|k| (false, k)));
    for (i, (is_op, k)) in points.iter().enumerate() {
        let sub = i as u64;
        if !rc.want_sub(sub) {
            continue;
        }
        rc.mark(sub);
        out.evals += 1;
        out.fault("cancel_from_other_party");
        out.keys.push(hash_str(&format!("{tag}|{is_op}|{k}")));
        let (a, b, flagged, _, _) = if *is_op { run_a(Some(*k), None) } else { run_a(None, Some(*k as usize)) };
        let at = format!("{} {k} of {}", if *is_op { "stream call" } else { "progress callback" }, if *is_op { n_ops } else { n_cb as u64 });
        // composite operations (add-ingredient then sign) may be cancelled in their second half
        let a_cancelled = a.err_kind().map(|e| e.ends_with("OperationCancelled")).unwrap_or(false);
        if a_cancelled {
            out.probe("sweep:A-cancelled");
        } else {
            out.probe("sweep:A-completed");
        }
        if !(a_cancelled || a == ref_a) {
            out.violate(sub, &format!("cancel-changes-result:{}", op.name()), "C24 an operation overlapping a cancel yields its sequential result or OperationCancelled",
                json!({"scenario": tag, "cancel_at": at, "observed": a.brief(), "sequential": ref_a.brief()}));
        }
        if !flagged {
            out.violate(sub, "cancel-lost:flag-cleared", "C24 a cancelled context stays cancelled (is_cancelled)",
                json!({"scenario": tag, "cancel_at": at, "A": a.brief()}));
        } else if !b.err_kind().map(|e| e.ends_with("OperationCancelled")).unwrap_or(false) {
            out.violate(sub, "cancel-lost:op-after-cancel-not-cancelled", "C24 an operation started on a context after cancel() returned reports OperationCancelled, as in every sequential order",
                json!({"scenario": tag, "cancel_at": at, "A": a.brief(), "B": b.brief(), "B_without_cancel": ref_b.brief()}));
        }
    }
    out.sample = Some(json!({"scenario": format!("cancel sweep {tag}"), "stream_calls": n_ops, "callbacks": n_cb}));
    out.digest = hash_str(&format!("{tag}|{n_ops}|{n_cb}"));
    out
}

/// Two operations on one shared context, interleaved at a checkpoint: while A is paused in its
/// k-th progress callback the context is cancelled and a second operation B (a read) runs to its
/// end on the same context; then A goes on.  Both were running or started after cancel() returned,
/// so both end with the cancellation error, whichever of them reaches a checkpoint first.
/// Reported under `prop` ("C23" / "C24").
pub fn interleaved_cancel(rc: &mut RunCtx, out: &mut RunOut, prop: &str, sub_base: u64) {
    let mut r = rc.rng.fork("interleave");
    let fmt = *r.pick(&[Fmt::Jpeg, Fmt::Png, Fmt::Mp4]);
    let op = *r.pick(&[Op::Read, Op::AddIngredient, Op::Sign]);
    let base = Arc::new(sdk::make_context(&json!({})));
    c2pa::verif::set_random_seed(Some(hash_str(&format!("interleave-{}-{}", rc.seed, rc.idx))));
    let asset = assets::generate(fmt, &mut r);
    let (sa, sb) = match (
        ops::prepare(op, fmt, "ed25519", asset.clone(), sdk::simple_definition("il"), &base),
        ops::prepare(Op::Read, fmt, "ed25519", asset, sdk::simple_definition("il"), &base),
    ) {
        (Ok(a), Ok(b)) => (a, Arc::new(b)),
        _ => {
            out.probe("interleave-prepare-failed");
            return;
        }
    };
    let vctx = Arc::new(sdk::make_context(&json!({})));
    // callbacks of A, fault-free
    let n_cb = {
        let ctx = ops::make_ctx(&json!({}));
        let world = stream::new_world(FaultPlan::default(), None);
        ops::cb_reset(Some(world.clone()), None);
        let _ = ops::exec(&sa, &ExecEnv { ctx: &ctx, verify_ctx: &vctx, world: &world, pend: None });
        let n = ops::cb_take_log().len();
        ops::cb_reset(None, None);
        n
    };
    let tag = format!("{}+read:{}", op.name(), fmt.name());
    for k in 1..=n_cb {
        let sub = sub_base + k as u64;
        if !rc.want_sub(sub) {
            continue;
        }
        rc.mark(sub);
        out.evals += 1;
        out.fault("second_operation_interleaved_at_checkpoint");
        out.keys.push(hash_str(&format!("interleave|{tag}|{k}")));
        let ctx = ops::make_ctx(&json!({}));
        let world = stream::new_world(FaultPlan::default(), None);
        ops::cb_reset(Some(world.clone()), None);
        let b_result: Arc<std::sync::Mutex<Option<Outcome>>> = Arc::new(std::sync::Mutex::new(None));
        {
            let (ctx2, vctx2, sb2, br) = (ctx.clone(), vctx.clone(), sb.clone(), b_result.clone());
            let f: Arc<dyn Fn() + Send + Sync> = Arc::new(move || {
                let w2 = stream::new_world(FaultPlan::default(), None);
                let o = ops::exec(&sb2, &ExecEnv { ctx: &ctx2, verify_ctx: &vctx2, world: &w2, pend: None });
                if let Ok(mut g) = br.lock() {
                    *g = Some(o);
                }
            });
            let c3 = ctx.clone();
            ops::CB.with(|c| {
                let mut c = c.borrow_mut();
                c.flag_at = Some((k, c3));
                c.nested_at = Some((k, f));
            });
        }
        let a = sdk::guarded(|| ops::exec(&sa, &ExecEnv { ctx: &ctx, verify_ctx: &vctx, world: &world, pend: None }));
        ops::cb_reset(None, None);
        let b = b_result.lock().ok().and_then(|g| g.clone());
        let a = match a {
            Ok(a) => a,
            Err(p) => {
                out.violate(sub, &format!("panic:{}", p.split('|').next().unwrap_or("?")), "G1 no panic", json!({"scenario": tag, "k": k, "panic": p}));
                continue;
            }
        };
        let cancelled = |o: &Outcome| o.err_kind().map(|e| e.ends_with("OperationCancelled")).unwrap_or(false);
        let b_ok = b.as_ref().map(cancelled).unwrap_or(true);
        if !cancelled(&a) || !b_ok {
            let who = if !cancelled(&a) { "paused-operation-completes" } else { "second-operation-completes" };
            out.violate(sub, &format!("{}cancel-reaches-only-one-of-two-operations:{who}", if prop == "C24" { "" } else { "" }),
                &format!("{prop} a cancelled context ends every operation running on it with the cancellation error"),
                json!({"scenario": tag, "paused_at_callback": k, "of": n_cb, "paused_operation": a.brief(), "second_operation": b.map(|b| b.brief())}));
        } else {
            out.probe("interleave:both-cancelled");
        }
    }
}
