//! C07 / C08 / C09 — embedding histories (write / replace / read / remove) on a model asset,
//! all streams SimStreams with seeded benign chunking.

use serde_json::json;

use crate::{
    assets::{self, Fmt},
    harness::{Meta, Property, RunCtx, RunOut, Tier},
    media,
    report::err_kind,
    rng::{hash_str, Rng},
    sdk,
    stream::{self, FaultPlan, SimStream},
};

#[derive(Clone, Copy, PartialEq)]
pub enum Which {
    C07,
    C08,
    C09,
}

pub struct Embed(pub Which);

/// A well-formed JUMBF superbox of exactly `total` bytes (>= 46).
pub fn make_store(total: usize, fill: u8) -> Vec<u8> {
    let total = total.max(46);
    let mut v = Vec::with_capacity(total);
    v.extend((total as u32).to_be_bytes());
    v.extend(b"jumb");
    // jumd: c2pa uuid, toggles, label
    v.extend(30u32.to_be_bytes());
    v.extend(b"jumd");
    v.extend([0x63, 0x32, 0x70, 0x61, 0x00, 0x11, 0x00, 0x10, 0x80, 0x00, 0x00, 0xaa, 0x00, 0x38, 0x9b, 0x71]);
    v.push(0x03);
    v.extend(b"c2pa\0");
    let rest = total - v.len();
    v.extend((rest as u32).to_be_bytes());
    v.extend(b"free");
    for i in 0..rest - 8 {
        v.push(fill.wrapping_add((i % 251) as u8));
    }
    v
}

fn pick_len(r: &mut Rng, thorough: bool) -> usize {
    match r.below(15) {
        // JPEG splits a store into APP11 segments of 64000 payload bytes: whole segments and a
        // tail of -2..+30 bytes
        12 | 13 => (1 + r.below(3) as usize) * 64_000 + r.below(33) as usize - 2,
        // ID3 sizes are sync-safe (7 bits a byte)
        14 => *r.pick(&[127usize, 128, 16_383, 16_384]) + r.below(24) as usize,
        0 => 46 + r.below(16) as usize,
        1 => 254 + r.below(4) as usize,
        2 => 65_480 + r.below(80) as usize,  // around one JPEG APP11 segment
        3 => 65_535 + r.below(4) as usize,
        4 => 131_000 + r.below(120) as usize, // around two segments
        5 => 3 * (100 + r.below(50) as usize) + r.below(3) as usize, // base64 boundaries
        6 if thorough => 150_000 + r.below(50_000) as usize,
        _ => 46 + r.below(6000) as usize,
    }
}

#[derive(Clone, Debug)]
enum Op {
    Write { len: usize, fill: u8 },
    /// replace with another store of the same length as the current one
    ReplaceSame { fill: u8 },
    Read,
    Remove,
}

fn write(fmt: Fmt, cur: &[u8], store: &[u8], chunk: usize, rng: Rng) -> Result<Vec<u8>, String> {
    let world = stream::new_world(FaultPlan { max_chunk: chunk, ..Default::default() }, Some(rng));
    let mut i = SimStream::new(&world, 0, cur.to_vec());
    let mut o = SimStream::new(&world, 1, Vec::new());
    c2pa::jumbf_io::save_jumbf_to_stream(fmt.mime(), &mut i, &mut o, store).map_err(|e| err_kind(&e))?;
    Ok(o.into_data())
}

/// same-size replacement through the file route (jumbf_io::save_jumbf_to_file, which patches
/// in place through AssetPatch::patch_cai_store when the handler has one)
fn write_via_file(fmt: Fmt, cur: &[u8], store: &[u8], dir: &std::path::Path) -> Result<Vec<u8>, String> {
    let _ = std::fs::create_dir_all(dir);
    let p = dir.join(format!("f.{}", fmt.ext()));
    std::fs::write(&p, cur).map_err(|e| format!("harness write: {e}"))?;
    let r = c2pa::jumbf_io::save_jumbf_to_file(store, &p, Some(&p)).map_err(|e| err_kind(&e));
    let out = std::fs::read(&p).map_err(|e| format!("harness read: {e}"));
    let _ = std::fs::remove_dir_all(dir);
    r?;
    out
}

fn read(fmt: Fmt, cur: &[u8], chunk: usize, rng: Rng) -> Result<Vec<u8>, String> {
    let world = stream::new_world(FaultPlan { max_chunk: chunk, ..Default::default() }, Some(rng));
    let mut i = SimStream::new(&world, 0, cur.to_vec());
    c2pa::jumbf_io::load_jumbf_from_stream(fmt.mime(), &mut i).map_err(|e| err_kind(&e))
}

fn remove(fmt: Fmt, cur: &[u8], chunk: usize, rng: Rng) -> Result<Vec<u8>, String> {
    let world = stream::new_world(FaultPlan { max_chunk: chunk, ..Default::default() }, Some(rng));
    let mut i = SimStream::new(&world, 0, cur.to_vec());
    let mut o = SimStream::new(&world, 1, Vec::new());
    c2pa::verif::remove_jumbf_from_stream(fmt.mime(), &mut i, &mut o).map_err(|e| err_kind(&e))?;
    Ok(o.into_data())
}

fn locations(fmt: Fmt, bytes: &[u8]) -> Result<Vec<(usize, usize, u8)>, String> {
    c2pa::verif::object_locations_from_stream(fmt.mime(), &mut std::io::Cursor::new(bytes.to_vec())).map_err(|e| err_kind(&e))
}

impl Property for Embed {
    fn meta(&self) -> Meta {
        match self.0 {
            Which::C07 => Meta {
                id: "C07",
                level: "exploration",
                rule: "one evaluation = one operation of a seeded history (2-7 operations from write(store) / replace-with-same-length / read / remove) executed by the real format handler (jumbf_io::save/load_jumbf_*_stream, remove via hook accessor) on a model asset of each of 11 formats, every stream a SimStream with seeded benign chunking (1..n byte reads/writes). Stores are well-formed JUMBF superboxes whose total length is drawn with weight on boundaries (minimal, 255/256, one and two JPEG APP11 segments, whole multiples of the 64000-byte APP11 payload with a tail of -2..+30 bytes, sync-safe ID3 size boundaries, 65535/65536, base64 multiples of 3 +-1, up to 200 000). Model: read returns exactly the last store written; after one remove read is JumbfNotFound; a removed asset accepts a write again. Non-trivial = the operation changed or read a store; distinct = (format, history position, store length, chunking)",
                assumptions: &["a write the handler refuses with Err is counted as a probe, not judged", "BMFF boxes over 4 GiB are out of reach"],
                real: &["format handlers (CAIReader/CAIWriter) of all 11 formats"],
                stubbed: &["asset streams (SimStream)"],
                crash_prop: "C10",
            },
            Which::C08 => Meta {
                id: "C08",
                level: "exploration",
                rule: "one evaluation = a same-length replacement inside a seeded embedding history: with L = the manifest (Cai) locations the handler reports for the file holding store s1, writing s2 (|s2| = |s1|, different content) through the real handler over SimStreams with seeded chunking must give a file of equal length whose byte diff is non-empty and lies inside L; L lies within the file and overlaps no other reported region. History position varies (first write, after a replace, after remove+write, with a pre-existing different-length store). Distinct = (format, store length, history position)",
                assumptions: &["about half of the replacements go through write_cai over SimStreams, the rest through jumbf_io::save_jumbf_to_file on a real file under /verif/work (the AssetPatch in-place route where the handler has one)"],
                real: &["format handlers' write_cai, patch_cai_store and get_object_locations_from_stream", "file system under /verif/work for the patch route"],
                stubbed: &["asset streams (SimStream)"],
                crash_prop: "C10",
            },
            Which::C09 => Meta {
                id: "C09",
                level: "exploration",
                rule: "one evaluation = one write / replace / remove of a seeded embedding history (stores grow, shrink and keep size) on a seeded structured asset (JPEG with extra APPn/COM/restart markers, PNG with ancillary chunks, GIF with extension blocks, RIFF with LIST/odd chunks, TIFF with strip before or after the IFD, SVG, MP3/FLAC with and without ID3, JPEG XL with Exif box, MP4 with mdat before or after moov and an stco table), compared before/after with the simulator's own per-format media extractor: ordered media units (manifest carriers left out) and the bytes every stored offset addresses must be identical; and remove(write(a)) == remove(a) byte for byte. Distinct = (format, asset variant, operation, store length)",
                assumptions: &["extractors are the simulator's own (little-endian classic TIFF, stco only; co64/iloc/saio/tfhd/tfra tables are not generated)", "whitespace between SVG elements and BMFF free/skip padding are not media"],
                real: &["format handlers incl. offset fix-ups (bmff_io::adjust_known_offsets, tiff_io)"],
                stubbed: &["asset streams (SimStream)"],
                crash_prop: "C10",
            },
        }
    }

    fn runs(&self, tier: Tier) -> u64 {
        match tier {
            Tier::Quick => 11 * 2400,
            Tier::Thorough => 11 * 40_000,
        }
    }

    fn supports_mask(&self) -> bool {
        true
    }

    fn run(&self, rc: &mut RunCtx) -> RunOut {
        let mut out = RunOut::default();
        let which = self.0;
        let thorough = rc.tier == Tier::Thorough;
        let fmt = assets::ALL[(rc.idx % 11) as usize];
        let mut ar = rc.rng.fork("asset");
        // BMFF: two in three start from the variant with every kind of absolute file offset
        let rich = ar.chance(2, 3);
        let pristine = if fmt == Fmt::Mp4 && rich { assets::mp4_rich(&mut ar) } else { assets::generate(fmt, &mut ar) };
        // optionally start from an asset that already carries a (real, signed) manifest
        let start_signed = rc.rng.chance(1, 4);
        let mut cur = pristine.clone();
        let mut model: Option<Vec<u8>> = None;
        if start_signed {
            let ctx = std::sync::Arc::new(sdk::make_context(&json!({})));
            if let Ok(s) = sdk::sign_plain(&ctx, &sdk::simple_definition("pre"), "ed25519", fmt.mime(), &pristine) {
                model = c2pa::jumbf_io::load_jumbf_from_memory(fmt.mime(), &s).ok();
                cur = s;
            }
        }
        // generate the history (all draws up front)
        let n_ops = rc.rng.usize(2, 7);
        let mut ops: Vec<(Op, usize, Rng)> = Vec::new();
        for i in 0..n_ops {
            let k = rc.rng.below(10);
            let len = pick_len(&mut rc.rng, thorough);
            let fill = rc.rng.below(256) as u8;
            let chunk = match rc.rng.below(4) {
                0 => 0,
                1 => 1 + rc.rng.below(3) as usize,
                _ => 1 + rc.rng.below(4096) as usize,
            };
            let crng = rc.rng.fork("chunk");
            let op = match (which, k) {
                (Which::C08, 0..=4) if i > 0 => Op::ReplaceSame { fill },
                (_, 0..=3) => Op::Write { len, fill },
                (_, 4) => Op::ReplaceSame { fill },
                (_, 5..=6) => Op::Read,
                _ => Op::Remove,
            };
            ops.push((op, chunk, crng));
        }
        if which == Which::C08 {
            // make sure there is something to replace
            ops.insert(0, (Op::Write { len: pick_len(&mut rc.rng, thorough), fill: 7 }, 0, rc.rng.fork("c")));
        }
        out.n_ops = ops.len();
        let mask = rc.mask.clone().unwrap_or_else(|| vec![true; ops.len()]);
        let tag = format!("{}{}", fmt.name(), if start_signed { "+signed" } else { "" });
        let mut trace: Vec<String> = Vec::new();
        let units0 = if which == Which::C09 { media::extract(fmt, &pristine).ok() } else { None };
        if which == Which::C09 && units0.is_none() {
            out.harness_error = Some(format!("extractor cannot parse pristine {}: {:?}", fmt.name(), media::extract(fmt, &pristine).err()));
            return out;
        }
        let removed_pristine = if which == Which::C09 { remove(fmt, &pristine, 0, Rng::new(1)).ok() } else { None };

        for (i, (op, chunk, crng)) in ops.into_iter().enumerate() {
            if !mask.get(i).copied().unwrap_or(true) {
                continue;
            }
            let sub = i as u64;
            out.evals += 1;
            let before = cur.clone();
            match op {
                Op::Write { .. } | Op::ReplaceSame { .. } => {
                    let (store, same) = match &op {
                        Op::Write { len, fill } => (make_store(*len, *fill), false),
                        Op::ReplaceSame { fill } => match &model {
                            Some(m) if m.len() >= 46 => {
                                let mut s = make_store(m.len(), *fill);
                                if &s == m {
                                    let l = s.len();
                                    s[l - 1] ^= 0x55;
                                }
                                (s, true)
                            }
                            _ => {
                                trace.push("replace-same(skipped: nothing embedded)".into());
                                continue;
                            }
                        },
                        _ => unreachable!(),
                    };
                    // same-size replacements take the in-place patch route on every other chunking draw
                    let via_file = same && which == Which::C08 && chunk % 2 == 1 && c2pa::verif::supports_patch(fmt.mime());
                    trace.push(format!("{}({} bytes, {})", if same { "replace-same" } else { "write" }, store.len(),
                        if via_file { "file route".to_string() } else { format!("chunk {chunk}") }));
                    let r = if via_file {
                        out.probe("patch_route");
                        let dir = crate::harness::verif_dir().join("work").join(format!("c08-{}-{}-{}", rc.tier.name(), rc.seed, rc.idx));
                        sdk::guarded(|| write_via_file(fmt, &cur, &store, &dir))
                    } else {
                        sdk::guarded(|| write(fmt, &cur, &store, chunk, crng.clone()))
                    };
                    let r = match r {
                        Ok(r) => r,
                        Err(p) => {
                            out.violate(sub, &format!("panic:{}", p.split('|').next().unwrap_or("?")), "G1 no panic", json!({"scenario": tag, "history": trace, "panic": p}));
                            break;
                        }
                    };
                    match r {
                        Err(e) => {
                            out.probe(&format!("write-refused:{}:{e}", fmt.name()));
                            continue;
                        }
                        Ok(new) => {
                            out.fault("benign_chunking");
                            out.keys.push(hash_str(&format!("{tag}|{i}|w|{}|{chunk}", store.len())));
                            // C08
                            if which == Which::C08 && same {
                                match locations(fmt, &before) {
                                    Err(e) => out.probe(&format!("locations-err:{e}")),
                                    Ok(locs) => {
                                        let mut cai: Vec<(usize, usize)> = locs.iter().filter(|l| l.2 == 0).map(|l| (l.0, l.0 + l.1)).collect();
                                        if cai.is_empty() && fmt == Fmt::Mp4 {
                                            // BMFF reports no locations (its exclusions are box paths): the
                                            // manifest region is the C2PA uuid box, found with our own walker
                                            for (t, s, e) in crate::corrupt::bmff_top_level(&before) {
                                                if &t == b"uuid" && before.get(s + 8..s + 24) == Some(&[0xd8, 0xfe, 0xc3, 0xd6, 0x1b, 0x0e, 0x48, 0x3c, 0x92, 0x97, 0x58, 0x28, 0x87, 0x7e, 0xc4, 0x81][..]) {
                                                    cai.push((s, e));
                                                }
                                            }
                                            out.probe("bmff-region-from-own-walker");
                                        }
                                        let in_l = |p: usize| cai.iter().any(|(s, e)| p >= *s && p < *e);
                                        let mut clause = None;
                                        if new.len() != before.len() {
                                            clause = Some(("length-changed", format!("{} -> {}", before.len(), new.len())));
                                        } else {
                                            let diff: Vec<usize> = (0..new.len()).filter(|p| new[*p] != before[*p]).collect();
                                            if diff.is_empty() {
                                                clause = Some(("no-byte-changed", String::new()));
                                            } else if let Some(p) = diff.iter().find(|p| !in_l(**p)) {
                                                clause = Some(("byte-changed-outside-manifest-region", format!("offset {p}, region {cai:?}, {} bytes differ", diff.len())));
                                            }
                                        }
                                        if clause.is_none() {
                                            for (s, e) in &cai {
                                                if *e > before.len() {
                                                    clause = Some(("region-outside-file", format!("[{s},{e}) file {}", before.len())));
                                                }
                                            }
                                            for (o, l, k) in &locs {
                                                if *k != 0 && *l > 0 && cai.iter().any(|(s, e)| *o < *e && *s < o + l) {
                                                    clause = Some(("region-overlaps-other", format!("cai {cai:?} other [{o},+{l}) kind {k}")));
                                                }
                                            }
                                        }
                                        match clause {
                                            Some((c, d)) => out.violate(sub, &format!("same-size-replace:{}:{c}", fmt.name()),
                                                "C08 same-length replacement changes nothing outside the reported manifest region",
                                                json!({"scenario": tag, "history": trace, "detail": d})),
                                            None => out.probe("same-size-replace:local"),
                                        }
                                    }
                                }
                            }
                            // C09
                            if which == Which::C09 {
                                match media::extract(fmt, &new) {
                                    Err(e) => out.violate(sub, &format!("media-unparsable-after-write:{}", fmt.name()), "C09 output still a valid container for an independent parser",
                                        json!({"scenario": tag, "history": trace, "extractor_error": e})),
                                    Ok(u) => {
                                        if Some(&u) != units0.as_ref() {
                                            let d = first_unit_diff(units0.as_ref().unwrap(), &u);
                                            out.violate(sub, &format!("media-changed-by-write:{}:{}", fmt.name(), d.0), "C09 embedding never changes media content",
                                                json!({"scenario": tag, "history": trace, "difference": d.1}));
                                        } else {
                                            out.probe("media-identical-after-write");
                                        }
                                    }
                                }
                            }
                            cur = new;
                            model = Some(store);
                        }
                    }
                }
                Op::Read => {
                    trace.push(format!("read(chunk {chunk})"));
                    let r = sdk::guarded(|| read(fmt, &cur, chunk, crng.clone()));
                    let r = match r {
                        Ok(r) => r,
                        Err(p) => {
                            out.violate(sub, &format!("panic:{}", p.split('|').next().unwrap_or("?")), "G1 no panic", json!({"scenario": tag, "history": trace, "panic": p}));
                            break;
                        }
                    };
                    if which != Which::C07 {
                        continue;
                    }
                    out.keys.push(hash_str(&format!("{tag}|{i}|r|{chunk}|{}", model.as_ref().map(|m| m.len()).unwrap_or(0))));
                    match (&model, r) {
                        (Some(m), Ok(got)) if &got == m => out.probe("read-matches-last-write"),
                        (Some(m), Ok(got)) => out.violate(sub, &format!("read-differs-from-last-write:{}", fmt.name()), "C07 read returns exactly the last store written",
                            json!({"scenario": tag, "history": trace, "expected_len": m.len(), "got_len": got.len(),
                                   "first_diff": (0..m.len().min(got.len())).find(|p| m[*p] != got[*p])})),
                        (Some(m), Err(e)) => out.violate(sub, &format!("read-fails-after-write:{}:{e}", fmt.name()), "C07 read returns exactly the last store written",
                            json!({"scenario": tag, "history": trace, "expected_len": m.len(), "error": e})),
                        (None, Ok(got)) => out.violate(sub, &format!("store-found-where-none-expected:{}", fmt.name()), "C07 after remove no manifest is present",
                            json!({"scenario": tag, "history": trace, "got_len": got.len()})),
                        (None, Err(e)) if e == "JumbfNotFound" => out.probe("read-not-found-as-expected"),
                        (None, Err(e)) => out.probe(&format!("read-none:{e}")),
                    }
                }
                Op::Remove => {
                    trace.push(format!("remove(chunk {chunk})"));
                    let r = sdk::guarded(|| remove(fmt, &cur, chunk, crng.clone()));
                    let r = match r {
                        Ok(r) => r,
                        Err(p) => {
                            out.violate(sub, &format!("panic:{}", p.split('|').next().unwrap_or("?")), "G1 no panic", json!({"scenario": tag, "history": trace, "panic": p}));
                            break;
                        }
                    };
                    match r {
                        Err(e) => {
                            if model.is_some() {
                                out.violate(sub, &format!("remove-fails:{}:{e}", fmt.name()), "C07 removing the manifest yields an asset with no manifest",
                                    json!({"scenario": tag, "history": trace, "error": e}));
                            } else {
                                out.probe(&format!("remove-without-store:{e}"));
                            }
                            continue;
                        }
                        Ok(new) => {
                            out.keys.push(hash_str(&format!("{tag}|{i}|x|{chunk}")));
                            if which == Which::C07 {
                                match read(fmt, &new, 0, Rng::new(1)) {
                                    Ok(got) => out.violate(sub, &format!("store-survives-remove:{}", fmt.name()), "C07 exactly one store: a single remove leaves none",
                                        json!({"scenario": tag, "history": trace, "found_len": got.len()})),
                                    Err(e) if e == "JumbfNotFound" => out.probe("removed"),
                                    Err(e) => out.violate(sub, &format!("asset-rejected-after-remove:{}:{e}", fmt.name()), "C07 the asset is still accepted by the handler after remove",
                                        json!({"scenario": tag, "history": trace, "error": e})),
                                }
                            }
                            if which == Which::C09 {
                                match media::extract(fmt, &new) {
                                    Err(e) => out.violate(sub, &format!("media-unparsable-after-remove:{}", fmt.name()), "C09 output still a valid container",
                                        json!({"scenario": tag, "history": trace, "extractor_error": e})),
                                    Ok(u) => {
                                        if Some(&u) != units0.as_ref() {
                                            let d = first_unit_diff(units0.as_ref().unwrap(), &u);
                                            out.violate(sub, &format!("media-changed-by-remove:{}:{}", fmt.name(), d.0), "C09 removing never changes media content",
                                                json!({"scenario": tag, "history": trace, "difference": d.1}));
                                        }
                                    }
                                }
                                if let Some(rp) = &removed_pristine {
                                    if model.is_some() && &new != rp {
                                        let fd = (0..new.len().min(rp.len())).find(|p| new[*p] != rp[*p]);
                                        let orphan = before.len() > 200 && {
                                            // do bytes of the removed store survive in the output?
                                            let st = c2pa::jumbf_io::load_jumbf_from_memory(fmt.mime(), &before).unwrap_or_default();
                                            st.len() > 120 && crate::jumbf::find_sub(&new, &st[60..120]).is_some()
                                        };
                                        out.violate(sub, &format!("remove-of-embedded-differs-from-remove-of-original:{}", fmt.name()),
                                            "C09 remove(write(a)) == remove(a)",
                                            json!({"scenario": tag, "history": trace, "len": new.len(), "len_expected": rp.len(), "first_diff": fd, "removed_store_bytes_still_in_file": orphan}));
                                    } else {
                                        out.probe("remove-roundtrip-identical");
                                    }
                                }
                            }
                            cur = new;
                            model = None;
                        }
                    }
                }
            }
        }
        out.sample = Some(json!({"scenario": tag, "pristine_len": pristine.len(), "history": trace}));
        out.digest = hash_str(&format!("{tag}|{:?}", trace));
        out
    }
}

fn first_unit_diff(a: &media::Units, b: &media::Units) -> (String, String) {
    for (i, (x, y)) in a.iter().zip(b.iter()).enumerate() {
        if x != y {
            // ID3 text frame whose only difference is the leading text-encoding byte
            if x.0 == y.0 && x.0.starts_with('T') && x.1.len() == y.1.len() && !x.1.is_empty() && x.1[1..] == y.1[1..] {
                return ("id3-text-encoding-byte".into(), format!("frame {} encoding byte {} -> {}", x.0, x.1[0], y.1[0]));
            }
            let kind = if x.0 != y.0 { format!("unit-order-{}-vs-{}", x.0, y.0) } else { format!("unit-{}", x.0) };
            return (kind, format!("unit {i}: {} ({} bytes) vs {} ({} bytes)", x.0, x.1.len(), y.0, y.1.len()));
        }
    }
    ("unit-count".into(), format!("{} units vs {}: {:?} vs {:?}", a.len(), b.len(), a.iter().map(|u| u.0.clone()).collect::<Vec<_>>(), b.iter().map(|u| u.0.clone()).collect::<Vec<_>>()))
}
