//! C02 — tamper evidence of the manifest store: every byte of the embedded store faulted.

use std::sync::Arc;

use c2pa::{Builder, Reader};
use serde_json::json;

use crate::{
    assets::{self, Fmt},
    corrupt::Fault,
    harness::{Meta, Property, RunCtx, RunOut, Tier},
    jumbf,
    report::{err_kind, Report},
    rng::{hash_str, Rng},
    sdk::{self, Binding},
};

pub struct C02;

const SHARDS: u64 = 8;

#[derive(Clone, Copy, Debug, PartialEq)]
enum Shape {
    Single,
    WithIngredient,
    Sidecar,
    /// the active manifest redacts one assertion of its parent ingredient
    WithRedaction,
}

fn cases() -> Vec<(Fmt, Binding, Shape)> {
    vec![
        (Fmt::Jpeg, Binding::Default, Shape::Single),
        (Fmt::Png, Binding::Default, Shape::Single),
        (Fmt::Mp4, Binding::Default, Shape::Single),
        (Fmt::Jpeg, Binding::Box, Shape::Single),
        (Fmt::Png, Binding::Default, Shape::WithIngredient),
        (Fmt::Jpeg, Binding::Default, Shape::WithIngredient),
        (Fmt::Jpeg, Binding::Default, Shape::Sidecar),
        (Fmt::Gif, Binding::Default, Shape::Single),
        (Fmt::Wav, Binding::Default, Shape::Single),
        (Fmt::Tiff, Binding::Default, Shape::Single),
        (Fmt::Svg, Binding::Default, Shape::Single),
        (Fmt::Mp3, Binding::Default, Shape::Single),
        (Fmt::Flac, Binding::Default, Shape::Single),
        (Fmt::Jxl, Binding::Default, Shape::Single),
        (Fmt::Webp, Binding::Default, Shape::Single),
        (Fmt::Mp4, Binding::Default, Shape::WithIngredient),
        (Fmt::Jpeg, Binding::Default, Shape::WithRedaction),
        (Fmt::Jpeg, Binding::NoTrust, Shape::WithIngredient),
    ]
}

struct Case {
    fmt: Fmt,
    ctx: Arc<c2pa::Context>,
    /// bytes that get corrupted
    bytes: Vec<u8>,
    /// sidecar: the intact asset the corrupted store is validated against
    asset: Option<Vec<u8>>,
    clean: Report,
    /// offset of store byte 8 inside `bytes` (store[8..] is contiguous there), if found
    store_at: Option<usize>,
    store: Vec<u8>,
}

fn read_case(c: &Case, bytes: &[u8]) -> Result<Report, String> {
    match &c.asset {
        None => sdk::read_plain(&c.ctx, c.fmt.mime(), bytes),
        Some(asset) => {
            match Reader::from_shared_context(&c.ctx).with_manifest_data_and_stream(
                bytes,
                c.fmt.mime(),
                std::io::Cursor::new(asset.clone()),
            ) {
                Ok(r) => Ok(Report::from_reader(&r)),
                Err(e) => Err(err_kind(&e)),
            }
        }
    }
}

fn build(rc: &mut RunCtx, fmt: Fmt, binding: Binding, shape: Shape, variant: u64) -> Result<Case, String> {
    let overlay = sdk::binding_overlay(binding);
    let ctx = Arc::new(sdk::make_context(&overlay));
    c2pa::verif::set_random_seed(Some(hash_str(&format!("c02-{}-{}-{:?}-{:?}-{variant}", rc.seed, fmt.name(), binding, shape))));
    let mut ar = Rng::new(hash_str(&format!("{}-{}-{variant}-c02", rc.seed, fmt.name())));
    let asset = assets::generate(fmt, &mut ar);
    let def = sdk::simple_definition("c02");
    let signer = sdk::make_signer("ed25519");
    let mut b = Builder::from_shared_context(&ctx).with_definition(def.clone()).map_err(|e| err_kind(&e))?;
    if shape == Shape::WithIngredient {
        let ing_asset = assets::generate(fmt, &mut ar);
        let ing_signed = sdk::sign_plain(&ctx, &sdk::simple_definition("c02-ingredient"), "ed25519", fmt.mime(), &ing_asset)?;
        b.add_ingredient_from_stream(
            json!({"title": "ing", "relationship": "componentOf"}).to_string(),
            fmt.mime(),
            &mut std::io::Cursor::new(ing_signed),
        )
        .map_err(|e| format!("add ingredient: {}", err_kind(&e)))?;
    }
    if shape == Shape::Sidecar {
        b.set_no_embed(true);
    }
    let mut asset = asset;
    if shape == Shape::WithRedaction {
        // parent signed first; the edit redacts the parent's org.sim.note assertion
        let parent = sdk::sign_plain(&ctx, &sdk::simple_definition("c02-parent"), "ed25519", fmt.mime(), &asset)?;
        let pl = Reader::from_shared_context(&ctx)
            .with_stream(fmt.mime(), std::io::Cursor::new(parent.clone()))
            .map_err(|e| format!("parent read: {}", err_kind(&e)))?
            .active_label()
            .map(|s| s.to_string())
            .ok_or("parent label")?;
        let uri = format!("self#jumbf=/c2pa/{pl}/c2pa.assertions/org.sim.note");
        let def = json!({
            "title": "c02-redacting",
            "claim_generator_info": [{ "name": "c2pasim", "version": "0.1" }],
            "redactions": [uri],
            "assertions": [
                { "label": "c2pa.actions", "data": { "actions": [
                    { "action": "c2pa.redacted", "reason": "c2pa.PII.present", "parameters": { "redacted": uri } } ] } },
                // the same label (and instance) as the assertion it redacts in the parent
                { "label": "org.sim.note", "data": { "note": "c02-redacting" } }
            ]
        });
        b = Builder::from_shared_context(&ctx).with_definition(def).map_err(|e| err_kind(&e))?;
        b.set_intent(c2pa::BuilderIntent::Edit);
        asset = parent;
    }
    let mut src = std::io::Cursor::new(asset.clone());
    let mut dst = std::io::Cursor::new(Vec::new());
    let c2pa_data = b.sign(signer.as_ref(), fmt.mime(), &mut src, &mut dst).map_err(|e| format!("sign: {}", err_kind(&e)))?;
    let out = dst.into_inner();
    let mut case = if shape == Shape::Sidecar {
        Case { fmt, ctx, bytes: c2pa_data.clone(), asset: Some(out), clean: Report { state: String::new(), json: json!(null), codes: vec![], detailed: json!(null) }, store_at: Some(8), store: c2pa_data }
    } else {
        let store = c2pa::jumbf_io::load_jumbf_from_memory(fmt.mime(), &out).map_err(|e| format!("load store: {}", err_kind(&e)))?;
        let at = if store.len() > 16 { jumbf::find_sub(&out, &store[8..]) } else { None };
        Case { fmt, ctx, bytes: out, asset: None, clean: Report { state: String::new(), json: json!(null), codes: vec![], detailed: json!(null) }, store_at: at, store }
    };
    case.bytes = rc.artefact("bytes", || case.bytes.clone());
    case.clean = read_case(&case, &case.bytes).map_err(|e| format!("clean read: {e}"))?;
    if !case.clean.is_ok_state() {
        return Err(format!("clean read not valid: {}", case.clean.brief()));
    }
    Ok(case)
}

impl Property for C02 {
    fn meta(&self) -> Meta {
        Meta {
            id: "C02",
            level: "fault_enumeration",
            rule: "one evaluation = a real validation (Reader::with_stream, or with_manifest_data_and_stream for the sidecar case) after ONE stored-byte fault inside the embedded manifest store of a really-signed tiny asset: every store byte x {^0x01, ^0x80, ^0xFF, =0x00}, zeroing of each whole assertion box payload, swap of adjacent assertion boxes; on the sidecar store JUMBF structure edits with all enclosing sizes repaired (assertion duplicated / duplicated under another label / dropped, claim and signature exchanged, signature duplicated, the claim attached as the COSE payload with and without an edit of the claim box); 16 cases (11 formats single manifest; JPEG box-hash/compressed; JPEG/PNG/MP4 with a signed ingredient i.e. two manifests in the store; JPEG sidecar). Oracle: read fails, or Invalid, or (state, report, signature info, code multiset) identical to the clean read; and for bytes the simulator's own JUMBF walker attributes to a claim content box or an assertion box of any manifest in the store: never Valid/Trusted. Non-trivial = the fault changed a byte; distinct = (case, position, pattern)",
            assumptions: &[
                "the store is located as a contiguous substring (store[8..]) of the asset; when it is not contiguous only faults on the SDK-reported... are skipped and counted as a probe",
                "COSE padding, data-hash pad bytes outside assertion boxes, and free space are judged by the three-way disjunction only",
            ],
            real: &["c2pa SDK reader/validator incl. ingredient validation", "JUMBF parser, COSE verification"],
            stubbed: &["storage between sign and read"],
            crash_prop: "C10",
        }
    }

    fn runs(&self, tier: Tier) -> u64 {
        let n = cases().len() as u64 * SHARDS;
        match tier {
            Tier::Quick => n,
            Tier::Thorough => n * 3,
        }
    }

    fn exhaustive(&self, _tier: Tier) -> bool {
        true
    }

    fn run(&self, rc: &mut RunCtx) -> RunOut {
        let mut out = RunOut::default();
        let cs = cases();
        let per = cs.len() as u64 * SHARDS;
        let variant = rc.idx / per;
        let within = rc.idx % per;
        let (fmt, binding, shape) = cs[(within / SHARDS) as usize];
        let shard = within % SHARDS;
        let tag = format!("{}:{:?}:{:?}:v{variant}", fmt.name(), binding, shape);
        let case = match build(rc, fmt, binding, shape, variant) {
            Ok(c) => c,
            Err(e) => {
                out.harness_error = Some(format!("{tag}: {e}"));
                return out;
            }
        };
        let mut faults: Vec<(Fault, usize)> = Vec::new(); // (fault on file bytes, store index)
        let regions = if case.store_at.is_some() { jumbf::regions(&case.store) } else { vec![] };
        let region_of = |i: usize| regions.iter().find(|r| i >= r.start && i < r.end);
        let at = case.store_at.unwrap_or(8);
        // store byte i (i >= 8) lives at bytes[at + i - 8]
        let to_file = |i: usize| at + i - 8;
        if case.store_at.is_some() {
            for i in 8..case.store.len() {
                for pat in 0..4u8 {
                    faults.push((Fault::Flip { pos: to_file(i), pat }, i));
                }
            }
        } else {
            // the store is re-encoded by the container (GIF sub-blocks, SVG base64): fault every
            // byte of the region the handler reports as the manifest; three-way oracle only
            out.probe("store_not_contiguous_using_reported_region");
            let locs = c2pa::verif::object_locations_from_stream(fmt.mime(), &mut std::io::Cursor::new(case.bytes.clone()));
            let Ok(locs) = locs else {
                out.harness_error = Some(format!("{tag}: no object locations"));
                return out;
            };
            for (o, l, k) in locs {
                if k == 0 {
                    for p in o..(o + l).min(case.bytes.len()) {
                        for pat in 0..4u8 {
                            faults.push((Fault::Flip { pos: p, pat }, usize::MAX));
                        }
                    }
                }
            }
        }
        let ab = if case.store_at.is_some() { jumbf::assertion_boxes(&case.store) } else { vec![] };
        for (s, e) in &ab {
            faults.push((Fault::Smash { pos: to_file(s + 8), len: e - s - 8, val: 0 }, s + 8));
        }
        for w in ab.windows(2) {
            // swap two adjacent assertion boxes of equal length only (no length fix-ups needed)
            let (a, b) = (w[0], w[1]);
            if a.1 - a.0 == b.1 - b.0 && a.1 == b.0 {
                faults.push((Fault::BlockSwap { a: to_file(a.0), b: to_file(b.0), len: a.1 - a.0 }, a.0));
            }
        }
        let mut tally = std::collections::BTreeMap::<String, u64>::new();
        for (n, (f, si)) in faults.iter().enumerate() {
            if n as u64 % SHARDS != shard {
                continue;
            }
            let sub = n as u64;
            if !rc.want_sub(sub) {
                continue;
            }
            rc.mark(sub);
            let Some(m) = f.apply(&case.bytes) else { continue };
            out.evals += 1;
            out.fault(f.kind());
            out.keys.push(hash_str(&format!("{tag}|{n}")));
            let reg = if *si == usize::MAX { None } else { region_of(*si) };
            let rk = reg.map(|r| r.kind).unwrap_or("other");
            let r = match sdk::guarded(|| read_case(&case, &m)) {
                Ok(r) => r,
                Err(p) => {
                    let loc = p.split('|').next().unwrap_or("?").to_string();
                    out.violate(sub, &format!("panic:{loc}"), "G1 no panic on untrusted bytes",
                        json!({"scenario": tag, "fault": f.describe(), "panic": p}));
                    continue;
                }
            };
            let label = match &r {
                Err(_) => "err".to_string(),
                Ok(rep) if !rep.is_ok_state() => "invalid".to_string(),
                Ok(rep) => {
                    let same = rep.state == case.clean.state && rep.json == case.clean.json && rep.codes == case.clean.codes;
                    let certain = matches!(rk, "claim" | "assertion");
                    if certain {
                        let r0 = reg.unwrap();
                        let ing = if Some(r0.manifest.as_str()) == case.clean.active_label() { "active" } else { "ingredient" };
                        out.violate(sub, &format!("store-change-undetected:{rk}:{ing}:{}", short_label(&r0.label)),
                            "C02 a changed claim or assertion payload is never Valid/Trusted",
                            json!({"scenario": tag, "fault": f.describe(), "store_offset": si, "region": rk,
                                   "manifest": r0.manifest, "label": r0.label, "state": rep.state, "report_identical": same}));
                        "VIOLATION".to_string()
                    } else if !same {
                        out.violate(sub, &format!("store-change-alters-report:{rk}"),
                            "C02 fails, or Invalid, or everything identical",
                            json!({"scenario": tag, "fault": f.describe(), "store_offset": si, "region": rk, "state": rep.state,
                                   "clean_state": case.clean.state}));
                        "VIOLATION".to_string()
                    } else {
                        format!("identical:{rk}")
                    }
                }
            };
            *tally.entry(label).or_insert(0) += 1;
        }
        // JUMBF-structure edits with all enclosing box sizes fixed up (sidecar store only, where
        // no container framing has to follow): assertion box duplicated, duplicated under a new
        // (undeclared) label, dropped; claim and signature boxes exchanged
        if shape == Shape::Sidecar && shard == 0 {
            let mut edits: Vec<(String, Option<Vec<u8>>)> = Vec::new();
            for (s, e) in &ab {
                let bx = case.store[*s..*e].to_vec();
                edits.push((format!("assertion box [{s}..{e}) duplicated"), jumbf::splice(&case.store, *e, 0, &bx, (*s, *e))));
                let mut renamed = bx.clone();
                // label: jumb hdr(8) jumd hdr(8) uuid(16) toggles(1) label.. ; change its first character
                if renamed.len() > 34 {
                    renamed[33] ^= 0x01;
                }
                edits.push((format!("assertion box [{s}..{e}) duplicated under another label"), jumbf::splice(&case.store, *e, 0, &renamed, (*s, *e))));
                edits.push((format!("assertion box [{s}..{e}) dropped"), jumbf::splice(&case.store, *s, e - s, &[], (*s, *e))));
            }
            if let Some(((cs, ce), (ss, se))) = jumbf::claim_and_signature(&case.store) {
                if ce == ss {
                    let mut sw = case.store[ss..se].to_vec();
                    sw.extend_from_slice(&case.store[cs..ce]);
                    edits.push(("claim and signature boxes exchanged".into(), jumbf::splice(&case.store, cs, se - cs, &sw, (cs, ce))));
                }
                let sig = case.store[ss..se].to_vec();
                edits.push(("signature box duplicated".into(), jumbf::splice(&case.store, se, 0, &sig, (ss, se))));
            }
            // the original claim attached as the COSE payload (written detached by the SDK), and
            // the claim box itself edited: signature and headers untouched
            edits.push(("claim attached as COSE payload, claim box edited".into(), crate::forge::attach_payload_and_edit_claim(&case.store, b"c2pasim", b"c2pasin")));
            edits.push(("claim attached as COSE payload, claim box untouched".into(), crate::forge::attach_payload_and_edit_claim(&case.store, b"c2pasim", b"c2pasim")));
            for (n, (what, m)) in edits.iter().enumerate() {
                let sub = 10_000_000 + n as u64;
                if !rc.want_sub(sub) {
                    continue;
                }
                rc.mark(sub);
                let Some(m) = m else {
                    out.probe("edit_not_built");
                    continue;
                };
                out.evals += 1;
                out.fault("structure_edit");
                out.keys.push(hash_str(&format!("{tag}|edit{n}")));
                let label = match sdk::guarded(|| read_case(&case, m)) {
                    Err(p) => {
                        let loc = p.split('|').next().unwrap_or("?").to_string();
                        out.violate(sub, &format!("panic:{loc}"), "G1 no panic on untrusted bytes", json!({"scenario": tag, "fault": what, "panic": p}));
                        continue;
                    }
                    Ok(Err(_)) => "err",
                    Ok(Ok(rep)) if !rep.is_ok_state() => "invalid",
                    Ok(Ok(rep)) => {
                        if rep.state == case.clean.state && rep.json == case.clean.json && rep.codes == case.clean.codes {
                            "identical"
                        } else {
                            let kind = what.split(") ").last().unwrap_or(what).replace(' ', "-");
                            out.violate(sub, &format!("structure-edit-alters-report:{kind}"), "C02 fails, or Invalid, or everything identical",
                                json!({"scenario": tag, "fault": what, "state": rep.state, "clean_state": case.clean.state}));
                            "VIOLATION"
                        }
                    }
                };
                if std::env::var("VERIF_DEBUG").is_ok() {
                    eprintln!("edit {n}: {what} -> {label}");
                }
                out.probe(&format!("edit_outcome:{label}"));
            }
        }
        for (k, v) in &tally {
            out.probe_n(&format!("outcome:{k}"), *v);
        }
        if shard == 0 {
            out.sample = Some(json!({"scenario": tag, "store_len": case.store.len(), "file_len": case.bytes.len(),
                "regions": regions.iter().map(|r| format!("{}:{} [{}..{})", r.kind, r.label, r.start, r.end)).collect::<Vec<_>>(),
                "faults_total": faults.len(), "outcomes_this_shard": tally}));
        }
        out.digest = hash_str(&format!("{tag}|{}|{:?}", faults.len(), tally));
        out
    }
}

fn short_label(l: &str) -> String {
    l.chars().take(40).collect()
}
