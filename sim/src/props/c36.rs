//! C36 — time-stamps are used only when they match the signature.
//! Simulated clock + TSA peer (real RFC 3161 tokens from `openssl ts`), OpenSSL as oracle for
//! "usable token".

use std::sync::{Arc, Mutex};

use c2pa::Builder;
use serde_json::json;

use crate::{
    assets::{self, Fmt},
    harness::{Meta, Property, RunCtx, RunOut, Tier},
    pki::{self, PkiSigner, Tsa, TsaLog},
    report::err_kind,
    rng::hash_str,
    sdk,
};

pub struct C36;

fn pki_settings() -> serde_json::Value {
    json!({
        "trust": { "trust_anchors": String::from_utf8_lossy(&pki::read("root.pem")), "trust_config": sdk::TRUST_CONFIG },
        "verify": { "verify_after_sign": false, "ocsp_fetch": false, "remote_manifest_fetch": false },
        "builder": { "thumbnail": { "enabled": false } }
    })
}

impl Property for C36 {
    fn meta(&self) -> Meta {
        Meta {
            id: "C36",
            level: "exploration",
            rule: "one evaluation = sign with an end-entity certificate of the PKI pool (validity window W: past 2020-2021 / current 2024-2036 / future 2040-2041) while the simulated TSA peer (Signer::send_timestamp_request) answers with a real RFC 3161 token made by `openssl ts -reply` - honest, over a different message, with one seeded byte flipped inside TSTInfo or inside the CMS signature value, from a TSA chaining to an untrusted root - or with no token; the TSA signs its token with sha256 (mostly), sha1, sha224, sha384 or sha512; then validate under a simulated clock (hook H5) set before / inside / after W and far in the future. 'Usable token' (imprint over the accompanied signature and CMS signature verifies) holds by construction for honest / untrusted-TSA tokens and fails by construction for the others; `openssl ts -verify` is run as a cross-check and disagreements are counted. Oracle (implications only): token present and not usable => the reported signing time is absent and a timeStamp.{mismatch,untrusted,outsideValidity,malformed} code is reported; validation clock outside W and state Valid/Trusted => a usable token exists and its genTime is inside W. Distinct = (certificate window, peer behaviour, flip position class, clock)",
            assumptions: &["genTime of a token is the real time at which openssl made it; the three certificate windows are years apart so the classification does not depend on the day the check runs (valid until 2036)", "the converse (a usable in-window token makes an expired certificate acceptable) is counted, not required"],
            real: &["COSE signing with time-stamp embedding, time_stamp::verify, certificate_profile validity-at-time, trust checks"],
            stubbed: &["wall clock (simulated)", "TSA server (scripted peer emitting real tokens)"],
            crash_prop: "C10",
        }
    }

    fn runs(&self, tier: Tier) -> u64 {
        match tier {
            Tier::Quick => 48 * 2,
            Tier::Thorough => 48 * 200,
        }
    }

    fn run(&self, rc: &mut RunCtx) -> RunOut {
        let mut out = RunOut::default();
        if !pki::pool().join("root.pem").exists() {
            out.harness_error = Some("PKI pool missing: run bin/gen-pki".into());
            return out;
        }
        let mut r = rc.rng.fork("w");
        let work = crate::harness::verif_dir().join("work").join(format!("c36-{}-{}-{}", rc.tier.name(), rc.seed, rc.idx));
        let fmt = *r.pick(&[Fmt::Jpeg, Fmt::Png, Fmt::Mp4]);
        let asset = assets::generate(fmt, &mut r);
        let per = 4;
        for c in 0..per {
            let sub = c as u64;
            let ee = *r.pick(&["ee_now", "ee_now", "ee_past", "ee_fut"]);
            let tsa = match r.below(9) {
                0 => Tsa::None,
                1..=3 => Tsa::Honest,
                4 => Tsa::WrongMessage,
                5 | 6 => Tsa::Flipped(r.next_u64()),
                _ => Tsa::Untrusted,
            };
            // the TSA's own signature digest: mostly sha256, now and then one the validator may
            // have no verifier for
            let tsa_digest = *r.pick(&["sha256", "sha256", "sha256", "sha1", "sha384", "sha512", "sha224", "sha1"]);
            let clocks = [1_560_000_000i64, 1_590_000_000, 1_650_000_000, 1_790_000_000, 2_150_000_000, 2_220_000_000, 2_500_000_000];
            let n_clk = r.usize(2, 4);
            let picks: Vec<i64> = (0..n_clk).map(|_| *r.pick(&clocks)).collect();
            if !rc.want_sub(sub) {
                continue;
            }
            let (wa, wb) = pki::window(ee);
            let log = Arc::new(Mutex::new(TsaLog::default()));
            let inner = match pki::ee_signer(ee) {
                Ok(s) => s,
                Err(e) => {
                    out.harness_error = Some(format!("ee signer {ee}: {e}"));
                    return out;
                }
            };
            let signer = PkiSigner { inner, tsa, ocsp: None, work: work.clone(), log: log.clone(), tsa_digest };
            let ctx = Arc::new(sdk::make_context(&pki_settings()));
            c2pa::verif::set_clock(Some((wa + wb) / 2));
            let signed = sdk::guarded(|| -> Result<Vec<u8>, String> {
                // every third case signs a version-1 claim (time-stamp over the claim in sigTst
                // instead of over the signature in sigTst2)
                let mut def = sdk::simple_definition("c36");
                if (rc.idx + c as u64) % 3 == 2 {
                    def["claim_version"] = json!(1);
                    def["assertions"] = json!([{ "label": "c2pa.actions", "data": { "actions": [ { "action": "c2pa.created" } ] } }]);
                }
                let mut b = Builder::from_shared_context(&ctx).with_definition(def).map_err(|e| err_kind(&e))?;
                let mut d = std::io::Cursor::new(Vec::new());
                b.sign(&signer, fmt.mime(), &mut std::io::Cursor::new(asset.clone()), &mut d).map_err(|e| err_kind(&e))?;
                Ok(d.into_inner())
            });
            c2pa::verif::set_clock(None);
            out.evals += 1;
            let tsa_name = format!("{tsa:?}").split('(').next().unwrap_or("").to_string();
            let signed = match signed {
                Err(p) => {
                    out.violate(sub, &format!("panic:{}", p.split('|').next().unwrap_or("?")), "G1 no panic", json!({"ee": ee, "tsa": tsa_name, "panic": p}));
                    continue;
                }
                Ok(Err(e)) => {
                    out.probe(&format!("sign-refused:{tsa_name}:{tsa_digest}:{e}"));
                    continue;
                }
                Ok(Ok(s)) => s,
            };
            out.fault(match tsa {
                Tsa::None => "no_token",
                Tsa::Honest => "honest_token",
                Tsa::WrongMessage => "token_for_other_message",
                Tsa::Flipped(_) => "token_byte_flipped",
                Tsa::Untrusted => "token_from_untrusted_tsa",
            });
            let issued = log.lock().map(|g| g.issued.clone()).unwrap_or_default();
            let token = issued.last().cloned();
            // "usable" = imprint over the accompanied signature and CMS signature verifies: true by
            // construction for honest / untrusted-TSA tokens, false by construction for a token over
            // another message or with a flipped TSTInfo / signature byte.  OpenSSL is asked as a
            // cross-check only (it is stricter than the statement in unsigned parts).
            let usable = matches!(tsa, Tsa::Honest | Tsa::Untrusted) && token.is_some();
            if let Some((resp, msg, _)) = &token {
                let o = pki::ts_usable(resp, msg, &work);
                out.probe(if o == usable { "openssl-agrees-on-usable" } else { "openssl-disagrees-on-usable" });
            }
            // the SDK may have dropped a token it could not parse at signing time
            let embedded = token.as_ref().map(|(resp, _, _)| resp.len() > 140 && crate::jumbf::find_sub(&signed, &resp[100..132]).is_some()).unwrap_or(false);
            if token.is_some() && !embedded {
                out.probe("token-not-embedded-by-signer");
            }
            let gen_time = token.as_ref().map(|t| t.2);
            let gen_in_w = gen_time.map(|g| g >= wa && g <= wb).unwrap_or(false);
            out.probe(&format!("tsa-digest:{tsa_digest}"));
            out.probe(&format!("token:{}:{}", tsa_name, if token.is_none() { "absent" } else if usable { "usable" } else { "unusable" }));
            for clk in picks {
                c2pa::verif::set_clock(Some(clk));
                // odd runs validate through the asynchronous API; both forms must agree (C40)
                let use_async = (rc.idx + c as u64) % 2 == 1;
                let rep = sdk::guarded(|| if use_async { sdk::read_plain_async(&ctx, fmt.mime(), &signed) } else { sdk::read_plain(&ctx, fmt.mime(), &signed) });
                let other = sdk::guarded(|| if use_async { sdk::read_plain(&ctx, fmt.mime(), &signed) } else { sdk::read_plain_async(&ctx, fmt.mime(), &signed) });
                c2pa::verif::set_clock(None);
                if let (Ok(a), Ok(b)) = (&rep, &other) {
                    let same = match (a, b) {
                        (Ok(x), Ok(y)) => x.state == y.state && x.codes == y.codes,
                        (Err(x), Err(y)) => x == y,
                        _ => false,
                    };
                    if !same {
                        out.violate(sub, &format!("@C40:sync-async-differ:timestamp:{tsa_name}"), "C40 synchronous and asynchronous validation agree",
                            json!({"certificate": ee, "peer": tsa_name, "validation_clock": clk,
                                   "first": a.as_ref().map(|r| r.brief()).map_err(|e| e.clone()), "second": b.as_ref().map(|r| r.brief()).map_err(|e| e.clone()), "first_is_async": use_async}));
                    } else {
                        out.probe("sync-async-agree");
                    }
                }
                out.evals += 1;
                out.sim_time_s += (clk - 1_560_000_000).unsigned_abs();
                let rep = match rep {
                    Err(p) => {
                        out.violate(sub, &format!("panic:{}", p.split('|').next().unwrap_or("?")), "G1 no panic", json!({"ee": ee, "tsa": tsa_name, "clock": clk, "panic": p}));
                        continue;
                    }
                    Ok(Err(e)) => {
                        out.probe(&format!("read-err:{e}"));
                        continue;
                    }
                    Ok(Ok(r)) => r,
                };
                let clk_in_w = clk >= wa && clk <= wb;
                out.keys.push(hash_str(&format!("{ee}|{tsa_name}|{usable}|{clk}")));
                let time = rep.active_manifest().and_then(|m| m.get("signature_info")).and_then(|s| s.get("time")).and_then(|t| t.as_str()).map(|s| s.to_string());
                let ts_fail = ["timeStamp.mismatch", "timeStamp.untrusted", "timeStamp.outsideValidity", "timeStamp.malformed"].iter().any(|c| rep.has_code(c));
                let flip_at = match tsa { Tsa::Flipped(k) => token.as_ref().and_then(|t| pki::flip_position(&t.0, k)), _ => None };
                let detail = json!({"flip_offset_in_response": flip_at, "response_len": token.as_ref().map(|t| t.0.len()), "certificate": ee, "window": [wa, wb], "peer": tsa_name, "tsa_signature_digest": tsa_digest, "token_usable_per_openssl": usable, "token_gen_time": gen_time,
                    "validation_clock": clk, "state": rep.brief(), "reported_signing_time": time,
                    "timestamp_codes": rep.codes.iter().filter(|c| c.contains("timeStamp")).map(|c| c.split('|').take(2).collect::<Vec<_>>().join("|")).collect::<Vec<_>>()});
                // (1) unusable token is not used and is reported
                if token.is_some() && embedded && !usable {
                    if time.is_some() {
                        out.violate(sub, &format!("unusable-token-used-as-signing-time:{tsa_name}"), "C36 a token is used as the signing time only if its imprint matches and its CMS signature verifies", detail.clone());
                    } else if !ts_fail {
                        out.violate(sub, &format!("unusable-token-not-reported:{tsa_name}"), "C36 otherwise a time-stamp failure is reported", detail.clone());
                    } else {
                        out.probe("unusable-token-rejected-and-reported");
                    }
                }
                // (2) outside W and Valid => usable token with genTime in W
                if !clk_in_w && rep.is_ok_state() && !(usable && gen_in_w) {
                    out.violate(sub, &format!("expired-certificate-accepted-without-matching-timestamp:{tsa_name}"),
                        "C36 an expired certificate is accepted only when a matching, valid time-stamp places the signing inside the validity period", detail.clone());
                }
                if usable && gen_in_w && !clk_in_w {
                    out.probe(if rep.is_ok_state() { "expired-cert-rescued-by-timestamp" } else { "expired-cert-not-rescued" });
                }
                if c == 0 && out.sample.is_none() {
                    out.sample = Some(detail);
                }
            }
        }
        let _ = std::fs::remove_dir_all(&work);
        out.digest = hash_str(&format!("{}|{:?}", rc.idx, out.probes));
        out
    }
}
