//! C10 — untrusted input never crashes, hangs or exhausts memory (partial: fault-shaped and
//! amplified inputs only).  G1 no panic, G2 no abort (worker death), G3 bounded stream
//! operations, G4 bounded allocation, evaluated on every ingestion entry point.

use std::sync::Arc;

use c2pa::{Builder, Reader};
use serde_json::json;

use crate::{
    alloc,
    assets::{self, Fmt},
    corrupt::Fault,
    harness::{Meta, Property, RunCtx, RunOut, Tier},
    rng::{hash_str, Rng},
    sdk,
    stream::{self, FaultPlan, SimStream},
};

pub struct C10;

const SHARDS: u64 = 4;

#[derive(Clone, Copy, Debug)]
enum Entry {
    Read,
    Ingredient,
    Archive,
    SidecarStore,
}

fn amplified(len: usize, r: &mut Rng, quick: bool) -> Vec<Fault> {
    let mut v = Vec::new();
    // a 4-byte field overwritten with extreme values at every position (covers every length
    // field of every container without needing to know where they are)
    let step = 1;
    let mut p = 0;
    while p + 4 <= len {
        v.push(Fault::Smash { pos: p, len: 4, val: 0xFF });
        v.push(Fault::Smash { pos: p, len: 3, val: 0x00 }); // 0x000000xx: tiny lengths
        v.push(Fault::Smash { pos: p, len: 1, val: 0x7F });
        if !quick {
            v.push(Fault::Smash { pos: p, len: 4, val: 0x00 });
            v.push(Fault::Smash { pos: p, len: 2, val: 0xFF });
        }
        p += step;
    }
    // 16-bit length fields (JPEG segments, TIFF counts, ID3 / GIF sizes): small and extreme values
    // at every position; in the quick tier on every fourth position
    for p in (0..len.saturating_sub(1)).step_by(if quick { 4 } else { 1 }) {
        let k = r.below(4) as usize;
        for (i, val) in [0u16, 2, 3, 9, 17, 25, 26, 27, 28, 0x7FFF, 0xFFFF].iter().enumerate() {
            if quick && i % 4 != k {
                continue;
            }
            v.push(Fault::Put16 { pos: p, val: *val, be: true });
            if !quick {
                v.push(Fault::Put16 { pos: p, val: *val, be: false });
            }
        }
    }
    // truncations and block faults
    for l in (0..len).step_by(step) {
        v.push(Fault::Truncate { len: l });
    }
    for _ in 0..64 {
        let bl = *r.pick(&[8usize, 16, 32, 64, 128]);
        if len > bl {
            let s = r.usize(0, len - bl);
            v.push(Fault::BlockDup { start: s, len: bl });
            v.push(Fault::BlockDrop { start: s, len: bl });
        }
    }
    v
}

/// repeat bytes[start..start+len) `n` times in place
fn repeat_block(d: &[u8], start: usize, len: usize, n: usize) -> Vec<u8> {
    let mut v = d[..start + len].to_vec();
    for _ in 1..n {
        v.extend_from_slice(&d[start..start + len]);
    }
    v.extend_from_slice(&d[start + len..]);
    v
}

/// the store with its first manifest's content replaced by one `brob` box holding
/// `inflated` zero bytes, brotli-compressed
fn brotli_bomb(store: &[u8], inflated: u64) -> Option<Vec<u8>> {
    use std::io::Read;
    let top = crate::jumbf::parse(store);
    let st = top.first()?;
    let m = st.children.iter().find(|c| &c.typ == b"jumb")?;
    let jd = m.children.first()?;
    let mut comp = Vec::new();
    let params = brotli::enc::BrotliEncoderParams { quality: 3, ..Default::default() };
    brotli::BrotliCompress(&mut std::io::repeat(0).take(inflated), &mut comp, &params).ok()?;
    let mut mbox = Vec::new();
    mbox.extend_from_slice(&store[jd.start..jd.end]);
    mbox.extend_from_slice(&((comp.len() + 8) as u32).to_be_bytes());
    mbox.extend_from_slice(b"brob");
    mbox.extend_from_slice(&comp);
    let mut out = Vec::new();
    let outer_jd = st.children.first()?;
    let total = 8 + (outer_jd.end - outer_jd.start) + 8 + mbox.len();
    out.extend_from_slice(&(total as u32).to_be_bytes());
    out.extend_from_slice(b"jumb");
    out.extend_from_slice(&store[outer_jd.start..outer_jd.end]);
    out.extend_from_slice(&((mbox.len() + 8) as u32).to_be_bytes());
    out.extend_from_slice(b"jumb");
    out.extend_from_slice(&mbox);
    Some(out)
}

/// a JPEG whose store holds `depth` manifests, each the parent ingredient of the next
/// (built without validating in between; empty when construction fails)
fn deep_chain(asset: &[u8], depth: usize) -> Vec<u8> {
    let ctx = Arc::new(sdk::make_context(&json!({"verify": {"verify_after_reading": false, "verify_after_sign": false}})));
    let Ok(mut cur) = sdk::sign_plain(&ctx, &sdk::simple_definition("c0"), "ed25519", "image/jpeg", asset) else {
        return Vec::new();
    };
    let signer = sdk::make_signer("ed25519");
    for k in 1..depth {
        let def = json!({"title": format!("c{k}"), "claim_generator_info": [{"name": "c2pasim", "version": "1"}]});
        let Ok(mut b) = Builder::from_shared_context(&ctx).with_definition(def) else { return Vec::new() };
        if b.add_ingredient_from_stream(json!({"title": "p", "relationship": "parentOf"}).to_string(), "image/jpeg", &mut std::io::Cursor::new(&cur)).is_err() {
            return Vec::new();
        }
        let mut d = std::io::Cursor::new(Vec::new());
        if b.sign(signer.as_ref(), "image/jpeg", &mut std::io::Cursor::new(&cur), &mut d).is_err() {
            return Vec::new();
        }
        cur = d.into_inner();
    }
    cur
}

/// from a JPEG holding a two-manifest chain [M0, M1] make a bare store [M0, M1, M2 .. Mn] where
/// Mk is M1 with its own label renamed to a fresh one and its parent reference to M(k-1)
fn forge_chain(two: &[u8], depth: usize) -> Option<Vec<u8>> {
    let store = {
        c2pa::jumbf_io::load_jumbf_from_stream("image/jpeg", &mut std::io::Cursor::new(two.to_vec())).ok()?
    };
    let top = crate::jumbf::parse(&store);
    let st = top.first()?;
    let ms: Vec<&crate::jumbf::JBox> = st.children.iter().filter(|c| &c.typ == b"jumb").collect();
    if ms.len() != 2 {
        return None;
    }
    let (l0, l1) = (ms[0].label.clone()?, ms[1].label.clone()?);
    if l0.len() != l1.len() || l0.len() < 12 {
        return None;
    }
    let m1 = &store[ms[1].start..ms[1].end];
    let label = |k: usize| -> Vec<u8> {
        // same length as the real labels: overwrite the tail with a counter
        let mut b = l1.clone().into_bytes();
        let tag = format!("{k:08x}");
        let n = b.len();
        b[n - 8..].copy_from_slice(tag.as_bytes());
        b
    };
    let replace = |hay: &[u8], from: &[u8], to: &[u8]| -> Vec<u8> {
        let mut o = Vec::with_capacity(hay.len());
        let mut i = 0;
        while i < hay.len() {
            if hay[i..].starts_with(from) {
                o.extend_from_slice(to);
                i += from.len();
            } else {
                o.push(hay[i]);
                i += 1;
            }
        }
        o
    };
    let outer_jd = st.children.first()?;
    let mut body = Vec::new();
    body.extend_from_slice(&store[outer_jd.start..outer_jd.end]);
    body.extend_from_slice(&store[ms[0].start..ms[0].end]);
    body.extend_from_slice(m1);
    let mut prev = l1.clone().into_bytes();
    for k in 2..depth {
        let me = label(k);
        // two-step rename through a placeholder so that own and parent labels do not collide
        let hold = vec![0x01u8; l1.len()];
        let a = replace(m1, l1.as_bytes(), &hold);
        let b = replace(&a, l0.as_bytes(), &prev);
        let c = replace(&b, &hold, &me);
        body.extend_from_slice(&c);
        prev = me;
    }
    let mut out = Vec::with_capacity(body.len() + 8);
    out.extend_from_slice(&((body.len() + 8) as u32).to_be_bytes());
    out.extend_from_slice(b"jumb");
    out.extend_from_slice(&body);
    Some(out)
}

/// wrap a JUMBF store in `depth` levels of superbox
fn nest_store(store: &[u8], depth: usize) -> Vec<u8> {
    let mut jumd = Vec::new();
    jumd.extend_from_slice(&[0x63, 0x32, 0x70, 0x61, 0x00, 0x11, 0x00, 0x10, 0x80, 0x00, 0x00, 0xaa, 0x00, 0x38, 0x9b, 0x71]);
    jumd.push(0x03);
    jumd.extend_from_slice(b"c2pa\0");
    let mut jb = Vec::new();
    jb.extend(((8 + jumd.len()) as u32).to_be_bytes());
    jb.extend(b"jumd");
    jb.extend(jumd);
    let per = 8 + jb.len();
    let mut v = Vec::with_capacity(store.len() + depth * per);
    for i in 0..depth {
        let size = store.len() + (depth - i) * per;
        v.extend((size as u32).to_be_bytes());
        v.extend(b"jumb");
        v.extend(&jb);
    }
    v.extend_from_slice(store);
    v
}

struct Limits {
    max_ops: u64,
    max_bytes: u64,
}

fn ingest(entry: Entry, ctx: &Arc<c2pa::Context>, hint: &str, bytes: &[u8], asset: &[u8]) -> (String, stream::WorldStats) {
    let world = stream::new_world(FaultPlan::default(), None);
    let label = match entry {
        Entry::Read => {
            let s = SimStream::new(&world, 0, bytes.to_vec());
            match Reader::from_shared_context(ctx).with_stream(hint, s) {
                Ok(r) => format!("ok:{:?}", r.validation_state()),
                Err(_) => "err".into(),
            }
        }
        Entry::Ingredient => {
            let mut s = SimStream::new(&world, 0, bytes.to_vec());
            let mut b = Builder::from_shared_context(ctx);
            match b.add_ingredient_from_stream(json!({"title": "i", "relationship": "componentOf"}).to_string(), hint, &mut s) {
                Ok(_) => "ok".into(),
                Err(_) => "err".into(),
            }
        }
        Entry::Archive => {
            let s = SimStream::new(&world, 0, bytes.to_vec());
            match Builder::from_shared_context(ctx).with_archive(s) {
                Ok(_) => "ok".into(),
                Err(_) => "err".into(),
            }
        }
        Entry::SidecarStore => {
            let s = SimStream::new(&world, 0, asset.to_vec());
            match Reader::from_shared_context(ctx).with_manifest_data_and_stream(bytes, hint, s) {
                Ok(r) => format!("ok:{:?}", r.validation_state()),
                Err(_) => "err".into(),
            }
        }
    };
    (label, stream::stats(&world))
}

impl Property for C10 {
    fn meta(&self) -> Meta {
        Meta {
            id: "C10",
            level: "exploration",
            rule: "one evaluation = one ingestion of untrusted bytes through Reader::with_stream (correct and wrong format hints), Builder::add_ingredient_from_stream, Builder::with_archive or Reader::with_manifest_data_and_stream, in a worker process whose death is an observation, with invariants G1 no panic (overflow checks on), G2 no abort/stack overflow, G3 stream calls <= 400k and bytes read <= 64 MiB + 4000 x input, G4 no single allocation >= 1 GiB (refused by a counting allocator) and peak <= 256 MiB + 64 x input. Inputs are fault-shaped: every 4-byte window of a signed tiny asset smashed to FF.. / 00.. / short-length forms, every truncation, block dup/drop, a chunk repeated 100 / 10 000 times, stores wrapped in 10 / 1 000 / 100 000 superbox levels, and the repository's regression fixtures (nested_moov_1000.mp4, riff_bomb_1000.wav, tiff_poc.tiff, id3v23_compression_underflow.mp3) with the same faults sampled. Non-trivial = bytes differ from the valid original; distinct = (entry point, format, hint, fault)",
            assumptions: &[
                "not a fuzzer: grammar-aware mutation of CBOR/ASN.1/COSE interiors is out of reach of this family",
                "every faulted run of the other checks additionally reports panics/crashes under C10",
                "network-shaped inputs (lying Content-Length, truncated bodies) are exercised by the netsim checks and reported under C10",
            ],
            real: &["c2pa SDK parsers, validators, ingredient and archive ingestion"],
            stubbed: &["storage (byte faults in memory)", "streams (SimStream, fault-free, used as step counter)"],
            crash_prop: "C10",
        }
    }

    fn runs(&self, tier: Tier) -> u64 {
        // 11 formats x 4 entry kinds x shards (+ 4 fixture runs + 1 nesting run + 1 chain run)
        let v = match tier {
            Tier::Quick => 1,
            Tier::Thorough => 6,
        };
        (11 * SHARDS * 3 + 4 + 2) * v
    }

    fn run(&self, rc: &mut RunCtx) -> RunOut {
        let mut out = RunOut::default();
        let quick = rc.tier == Tier::Quick;
        let per = 11 * SHARDS * 3 + 6;
        let variant = rc.idx / per;
        let within = rc.idx % per;
        let ctx = Arc::new(sdk::make_context(&json!({})));
        let lim = |n: usize| Limits { max_ops: 400_000, max_bytes: (64 << 20) + 4000 * n as u64 };

        let mut run_one = |out: &mut RunOut, sub: u64, tag: &str, entry: Entry, hint: &str, bytes: &[u8], asset: &[u8], what: &str| {
            out.evals += 1;
            alloc::reset();
            let base = alloc::current();
            let r = sdk::guarded(|| ingest(entry, &ctx, hint, bytes, asset));
            let (peak, largest) = alloc::peak_and_largest();
            let l = lim(bytes.len());
            match r {
                Err(p) => {
                    let loc = p.split('|').next().unwrap_or("?").to_string();
                    out.violate(sub, &format!("panic:{loc}"), "G1 no panic on untrusted bytes",
                        json!({"scenario": tag, "entry": format!("{entry:?}"), "hint": hint, "fault": what, "panic": p}));
                }
                Ok((label, st)) => {
                    out.probe(&format!("outcome:{}", label));
                    if st.ops > l.max_ops || st.bytes_read > l.max_bytes {
                        out.violate(sub, &format!("steps:{:?}:{}", entry, hint), "G3 bounded work",
                            json!({"scenario": tag, "fault": what, "stream_calls": st.ops, "bytes_read": st.bytes_read, "input_len": bytes.len()}));
                    }
                    let grown = peak.saturating_sub(base);
                    if grown > (256 << 20) + 64 * bytes.len() {
                        out.violate(sub, &format!("alloc-peak:{:?}:{}", entry, hint), "G4 bounded allocation",
                            json!({"scenario": tag, "fault": what, "peak_growth": grown, "largest_request": largest, "input_len": bytes.len()}));
                    }
                    out.steps += st.ops;
                }
            }
        };

        // the six special runs (fixtures, nesting / bombs, chains) come first: a batch cut short
        // by its time budget still has them
        if within < 6 {
            let k = within;
            if k == 5 {
                // a chain of manifests each naming the previous one as its parent, read on a
                // thread with the default 2 MiB stack
                let mut ar = Rng::new(hash_str(&format!("{}-chain-{variant}", rc.seed)));
                let asset = assets::generate(Fmt::Jpeg, &mut ar);
                let depths: &[usize] = if quick { &[40] } else { &[150, 199] };
                for (i, depth) in depths.iter().enumerate() {
                    let sub = i as u64;
                    if !rc.want_sub(sub) {
                        continue;
                    }
                    rc.mark(sub);
                    c2pa::verif::set_random_seed(Some(hash_str(&format!("c10-chain-{}-{depth}", rc.seed))));
                    let chain = rc.artefact(&format!("chain{depth}"), || deep_chain(&asset, *depth));
                    if chain.is_empty() {
                        out.probe("chain_not_built");
                        continue;
                    }
                    out.fault("deep_ingredient_chain");
                    out.keys.push(hash_str(&format!("chain|{depth}")));
                    let what = format!("{depth} manifests, each the parent ingredient of the next");
                    for entry in [Entry::Read, Entry::Ingredient] {
                        out.evals += 1;
                        let (c2, ch) = (ctx.clone(), chain.clone());
                        let h = std::thread::Builder::new()
                            .name("c10-chain".into())
                            .spawn(move || sdk::guarded(|| ingest(entry, &c2, "image/jpeg", &ch, &[])))
                            .expect("spawn");
                        match h.join() {
                            Ok(Ok((label, st))) => {
                                out.probe(&format!("chain_outcome:{depth}:{label}"));
                                out.steps += st.ops;
                            }
                            Ok(Err(p)) => {
                                let loc = p.split('|').next().unwrap_or("?").to_string();
                                out.violate(sub, &format!("panic:{loc}"), "G1 no panic on untrusted bytes",
                                    json!({"scenario": "chain", "entry": format!("{entry:?}"), "fault": what, "panic": p}));
                            }
                            Err(_) => {
                                out.violate(sub, "panic:chain-thread", "G1 no panic on untrusted bytes",
                                    json!({"scenario": "chain", "entry": format!("{entry:?}"), "fault": what}));
                            }
                        }
                    }
                }
                // forged chains far deeper than the SDK itself will build: the second manifest of a
                // two-manifest store repeated with its own and its parent's label renamed
                let two = rc.artefact("chain2", || deep_chain(&asset, 2));
                let forged: &[usize] = if quick { &[50, 300, 4000] } else { &[150, 250, 1000, 20000] };
                for (i, depth) in forged.iter().enumerate() {
                    let sub = 10 + i as u64;
                    if !rc.want_sub(sub) {
                        continue;
                    }
                    rc.mark(sub);
                    let Some(store) = forge_chain(&two, *depth) else {
                        out.probe("forged_chain_not_built");
                        continue;
                    };
                    out.fault("forged_ingredient_chain");
                    out.keys.push(hash_str(&format!("forged|{depth}")));
                    let what = format!("store of {depth} manifests forged from one, each naming the previous as parent");
                    out.evals += 1;
                    if std::env::var("VERIF_DEBUG").is_ok() {
                        let r = Reader::from_shared_context(&ctx).with_stream("application/c2pa", std::io::Cursor::new(store.clone()));
                        match r {
                            Ok(r) => eprintln!("forged {depth}: {:?} {:?}", r.validation_state(), r.validation_status().map(|v| v.iter().map(|s| s.code().to_string()).collect::<Vec<_>>())),
                            Err(e) => eprintln!("forged {depth}: Err {}", format!("{e:?}").chars().take(300).collect::<String>()),
                        }
                    }
                    let (c2, st2) = (ctx.clone(), store.clone());
                    let h = std::thread::Builder::new()
                        .name("c10-chain".into())
                        .spawn(move || sdk::guarded(|| ingest(Entry::Read, &c2, "application/c2pa", &st2, &[])))
                        .expect("spawn");
                    match h.join() {
                        Ok(Ok((label, st))) => {
                            out.probe(&format!("forged_outcome:{depth}:{label}"));
                            out.steps += st.ops;
                        }
                        Ok(Err(p)) => {
                            let loc = p.split('|').next().unwrap_or("?").to_string();
                            out.violate(sub, &format!("panic:{loc}"), "G1 no panic on untrusted bytes",
                                json!({"scenario": "forged chain", "fault": what, "panic": p}));
                        }
                        Err(_) => {
                            out.violate(sub, "panic:chain-thread", "G1 no panic on untrusted bytes", json!({"scenario": "forged chain", "fault": what}));
                        }
                    }
                }
                out.sample = Some(json!({"scenario": "deep ingredient chains", "depths": depths, "probes": out.probes}));
                return out;
            }
            if k == 4 {
                // nesting and repetition on a sidecar store
                let mut ar = Rng::new(hash_str(&format!("{}-nest-{variant}", rc.seed)));
                let asset = assets::generate(Fmt::Jpeg, &mut ar);
                let mut b = Builder::from_shared_context(&ctx).with_definition(sdk::simple_definition("c10")).unwrap();
                b.set_no_embed(true);
                let signer = sdk::make_signer("ed25519");
                let mut d = std::io::Cursor::new(Vec::new());
                let store = match b.sign(signer.as_ref(), "image/jpeg", &mut std::io::Cursor::new(asset.clone()), &mut d) {
                    Ok(s) => s,
                    Err(e) => {
                        out.harness_error = Some(format!("sidecar sign: {e:?}"));
                        return out;
                    }
                };
                for (i, depth) in [10usize, 1000, 100_000].iter().enumerate() {
                    let sub = i as u64;
                    if !rc.want_sub(sub) {
                        continue;
                    }
                    rc.mark(sub);
                    let n = nest_store(&store, *depth);
                    out.fault("superbox_nesting");
                    out.keys.push(hash_str(&format!("nest|{depth}")));
                    run_one(&mut out, sub, "nesting", Entry::SidecarStore, "image/jpeg", &n, &asset, &format!("store wrapped in {depth} superboxes"));
                    run_one(&mut out, sub, "nesting", Entry::Read, "application/c2pa", &n, &asset, &format!("store wrapped in {depth} superboxes, read as .c2pa"));
                }
                // decompression bombs: the first manifest replaced by a brotli box that inflates
                // to far more than any manifest-size limit (core.max_decompressed_manifest_size_in_mb)
                for (i, mib) in [40u64, 700].iter().enumerate() {
                    let sub = 20 + i as u64;
                    if !rc.want_sub(sub) {
                        continue;
                    }
                    rc.mark(sub);
                    let Some(n) = brotli_bomb(&store, *mib << 20) else {
                        out.probe("bomb_not_built");
                        continue;
                    };
                    out.fault("decompression_bomb");
                    out.keys.push(hash_str(&format!("bomb|{mib}")));
                    let what = format!("manifest replaced by a {}-byte brotli box inflating to {mib} MiB", n.len());
                    run_one(&mut out, sub, "bomb", Entry::SidecarStore, "image/jpeg", &n, &asset, &what);
                    run_one(&mut out, sub, "bomb", Entry::Read, "application/c2pa", &n, &asset, &what);
                }
                // repeat the first assertion box many times
                let ab = crate::jumbf::assertion_boxes(&store);
                if let Some((s, e)) = ab.first() {
                    for (i, n) in [2usize, 100, 10_000].iter().enumerate() {
                        let sub = 10 + i as u64;
                        if !rc.want_sub(sub) {
                            continue;
                        }
                        rc.mark(sub);
                        let m = repeat_block(&store, *s, e - s, *n);
                        out.fault("box_repeated");
                        out.keys.push(hash_str(&format!("rep|{n}")));
                        run_one(&mut out, sub, "repeat", Entry::SidecarStore, "image/jpeg", &m, &asset, &format!("assertion box repeated {n} times"));
                    }
                }
                out.sample = Some(json!({"scenario": "amplified store faults", "store_len": store.len(), "probes": out.probes}));
                return out;
            }
            // regression fixtures as starting points
            let names = ["nested_moov_1000.mp4", "riff_bomb_1000.wav", "tiff_poc.tiff", "id3v23_compression_underflow.mp3"];
            let hints = ["video/mp4", "audio/wav", "image/tiff", "audio/mpeg"];
            let path = format!("/repo/sdk/tests/fixtures/{}", names[k as usize]);
            let Ok(bytes) = std::fs::read(&path) else {
                out.probe("fixture_missing");
                out.evals += 1;
                return out;
            };
            let hint = hints[k as usize];
            let tag = format!("fixture:{}", names[k as usize]);
            let mut r = rc.rng.fork("fx");
            let mut faults: Vec<Option<Fault>> = vec![None];
            let n = if quick { 300 } else { 3000 };
            for _ in 0..n {
                let p = r.usize(0, bytes.len().saturating_sub(5));
                faults.push(Some(match r.below(4) {
                    0 => Fault::Smash { pos: p, len: 4, val: 0xFF },
                    1 => Fault::Smash { pos: p, len: 3, val: 0x00 },
                    2 => Fault::Truncate { len: p },
                    _ => Fault::Flip { pos: p, pat: r.below(4) as u8 },
                }));
            }
            for (i, f) in faults.iter().enumerate() {
                let sub = i as u64;
                if !rc.want_sub(sub) {
                    continue;
                }
                rc.mark(sub);
                let m = match f {
                    None => bytes.clone(),
                    Some(f) => match f.apply(&bytes) {
                        Some(m) => m,
                        None => continue,
                    },
                };
                if let Some(f) = f {
                    out.fault(f.kind());
                }
                out.keys.push(hash_str(&format!("{tag}|{i}")));
                let what = f.as_ref().map(|f| f.describe()).unwrap_or_else(|| "none".into());
                run_one(&mut out, sub, &tag, Entry::Read, hint, &m, &[], &what);
                if i % 4 == 0 {
                    run_one(&mut out, sub, &tag, Entry::Ingredient, hint, &m, &[], &what);
                }
            }
            out.sample = Some(json!({"scenario": tag, "len": bytes.len(), "faults": faults.len()}));
            return out;
        }

        let within = within - 6;
        let fi = within / (SHARDS * 3);
        let ek = (within / SHARDS) % 3;
        let shard = within % SHARDS;
        let fmt = assets::ALL[fi as usize];
        let entry = [Entry::Read, Entry::Ingredient, Entry::Archive][ek as usize];
        let mut ar = Rng::new(hash_str(&format!("{}-{}-{variant}-c10", rc.seed, fmt.name())));
        let asset = assets::generate(fmt, &mut ar);
        c2pa::verif::set_random_seed(Some(hash_str(&format!("c10-{}-{}-{variant}", rc.seed, fmt.name()))));
        let base = match entry {
            Entry::Archive => {
                // a builder archive with an ingredient
                let signed = match sdk::sign_plain(&ctx, &sdk::simple_definition("c10"), "ed25519", fmt.mime(), &asset) {
                    Ok(s) => s,
                    Err(e) => {
                        out.harness_error = Some(format!("sign: {e}"));
                        return out;
                    }
                };
                let mut b = Builder::from_shared_context(&ctx).with_definition(sdk::simple_definition("c10")).unwrap();
                let _ = b.add_ingredient_from_stream(json!({"title": "i", "relationship": "componentOf"}).to_string(), fmt.mime(), &mut std::io::Cursor::new(signed));
                let mut a = std::io::Cursor::new(Vec::new());
                if let Err(e) = b.to_archive(&mut a) {
                    out.harness_error = Some(format!("to_archive: {e:?}"));
                    return out;
                }
                a.into_inner()
            }
            _ => match sdk::sign_plain(&ctx, &sdk::simple_definition("c10"), "ed25519", fmt.mime(), &asset) {
                Ok(s) => s,
                Err(e) => {
                    out.harness_error = Some(format!("sign: {e}"));
                    return out;
                }
            },
        };
        let base = rc.artefact("base", || base.clone());
        // the last shard of the JPEG runs works on the signed asset with a foreign (non-C2PA)
        // APP11 segment of 17-27 bytes put in front of the manifest segments
        let base = if fmt == Fmt::Jpeg && !matches!(entry, Entry::Archive) && shard == SHARDS - 1 {
            out.fault("foreign_short_app11");
            assets::insert_short_app11(&base, &mut Rng::new(hash_str(&format!("{}-app11-{variant}", rc.seed))))
        } else {
            base
        };
        let tag = format!("{:?}:{}:v{variant}", entry, fmt.name());
        let mut fr = Rng::new(hash_str(&format!("{}-faults-{}-{variant}", rc.seed, fmt.name())));
        let faults = amplified(base.len(), &mut fr, quick);
        let hints: Vec<&str> = assets::ALL.iter().map(|f| f.mime()).collect();
        let mut hr = rc.rng.fork("hint");
        for (i, f) in faults.iter().enumerate() {
            let wrong_hint = *hr.pick(&hints); // drawn unconditionally (replay)
            if i as u64 % SHARDS != shard {
                continue;
            }
            let sub = i as u64;
            if !rc.want_sub(sub) {
                continue;
            }
            rc.mark(sub);
            out.keys.push(hash_str(&format!("{tag}|{i}")));
            let Some(m) = f.apply(&base) else {
                // counted all the same: whether a fault happens to be a no-op depends on bytes
                // (dates, signatures over them) that differ from one execution to the next
                out.evals += 1;
                out.probe("fault-was-a-no-op");
                continue;
            };
            out.fault(f.kind());
            let hint = if i % 5 == 4 { wrong_hint } else { fmt.mime() };
            run_one(&mut out, sub, &tag, entry, hint, &m, &[], &f.describe());
        }
        if shard == 0 {
            out.sample = Some(json!({"scenario": tag, "input_len": base.len(), "faults": faults.len()}));
        }
        out.digest = hash_str(&format!("{tag}|{}", out.evals));
        out
    }
}
