pub mod c01;
pub mod c03;
pub mod c02;
pub mod c10;
pub mod c11;
pub mod c12;
pub mod c13;
pub mod c15;
pub mod c17;
pub mod c21;
pub mod c22;
pub mod c23;
pub mod c24;
pub mod c28;
pub mod c29;
pub mod c31;
pub mod c32;
pub mod c35;
pub mod c36;
pub mod c37;
pub mod c38;
pub mod c39;
pub mod c40;
pub mod embed;
pub mod netprops;

use crate::harness::Property;

pub fn get(id: &str) -> Option<&'static dyn Property> {
    match id {
        "C01" => Some(&c01::C01),
        "C02" => Some(&c02::C02),
        "C03" => Some(&c03::C03),
        "C07" => Some(&embed::Embed(embed::Which::C07)),
        "C08" => Some(&embed::Embed(embed::Which::C08)),
        "C09" => Some(&embed::Embed(embed::Which::C09)),
        "C10" => Some(&c10::C10),
        "C11" => Some(&c11::C11),
        "C12" => Some(&c12::C12),
        "C13" => Some(&c13::C13),
        "C15" => Some(&c15::C15),
        "C17" => Some(&c17::C17),
        "C21" => Some(&c21::C21),
        "C22" => Some(&c22::C22),
        "C23" => Some(&c23::C23),
        "C24" => Some(&c24::C24),
        "C26" => Some(&netprops::C26),
        "C27" => Some(&netprops::C27),
        "C28" => Some(&c28::C28),
        "C29" => Some(&c29::C29),
        "C31" => Some(&c31::C31),
        "C32" => Some(&c32::C32),
        "C35" => Some(&c35::C35),
        "C36" => Some(&c36::C36),
        "C37" => Some(&c37::C37),
        "C38" => Some(&c38::C38),
        "C39" => Some(&c39::C39),
        "C40" => Some(&c40::C40),
        _ => None,
    }
}

pub const ALL_IDS: &[&str] = &["C01", "C02", "C03", "C07", "C08", "C09", "C10", "C11", "C12", "C13", "C15", "C17", "C21", "C22", "C23", "C24", "C26", "C27", "C28", "C29", "C31", "C32", "C35", "C36", "C37", "C38", "C39", "C40"];
