pub mod c35;

use crate::harness::Property;

pub fn get(id: &str) -> Option<&'static dyn Property> {
    match id {
        "C35" => Some(&c35::C35),
        _ => None,
    }
}

pub const ALL_IDS: &[&str] = &["C35"];
