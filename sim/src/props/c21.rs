//! C21 — update manifests cannot alter bound content or carry forbidden parts.
//! C01's fault enumeration on assets that carry an update manifest over a signed parent,
//! plus a fixed workload of rule-violating update manifests.

use std::sync::Arc;

use c2pa::{Builder, BuilderIntent};
use serde_json::json;

use crate::{
    assets::{self, Fmt},
    corrupt,
    harness::{Meta, Property, RunCtx, RunOut, Tier},
    props::c01::{self, Signed},
    report::err_kind,
    rng::{hash_str, Rng},
    sdk::{self, Binding},
};

pub struct C21;

const SHARDS: u64 = 8;

fn cases() -> Vec<(Fmt, Binding)> {
    vec![
        (Fmt::Jpeg, Binding::Default),
        (Fmt::Png, Binding::Default),
        (Fmt::Mp4, Binding::Default),
        (Fmt::Jpeg, Binding::Box),
        (Fmt::Tiff, Binding::Default),
        (Fmt::Wav, Binding::Default),
        (Fmt::Gif, Binding::Default),
        // the last two are validated without trust anchors: the parent then carries a tolerated
        // failure (signingCredential.untrusted) and the asset is Valid, not Trusted
        (Fmt::Jpeg, Binding::Default),
        (Fmt::Mp4, Binding::Default),
    ]
}

const UNTRUSTED_FROM: usize = 7;

fn update_sign(ctx: &Arc<c2pa::Context>, def: serde_json::Value, fmt: Fmt, src: &[u8], tweak: impl FnOnce(&mut Builder)) -> Result<Vec<u8>, String> {
    let mut b = Builder::from_shared_context(ctx).with_definition(def).map_err(|e| err_kind(&e))?;
    b.set_intent(BuilderIntent::Update);
    tweak(&mut b);
    let signer = sdk::make_signer("ed25519");
    let mut s = std::io::Cursor::new(src.to_vec());
    let mut d = std::io::Cursor::new(Vec::new());
    b.sign(signer.as_ref(), fmt.mime(), &mut s, &mut d).map_err(|e| err_kind(&e))?;
    Ok(d.into_inner())
}

pub fn build(rc: &mut RunCtx, fmt: Fmt, binding: Binding, variant: u64, untrusted: bool) -> Result<Signed, String> {
    let overlay = sdk::binding_overlay(binding);
    let ctx = Arc::new(sdk::make_context(&overlay));
    c2pa::verif::set_random_seed(Some(hash_str(&format!("c21-{}-{}-{:?}-{variant}", rc.seed, fmt.name(), binding))));
    let mut ar = Rng::new(hash_str(&format!("{}-{}-{variant}-c21", rc.seed, fmt.name())));
    let asset = assets::generate(fmt, &mut ar);
    let parent = sdk::sign_plain(&ctx, &sdk::simple_definition("c21-parent"), "ed25519", fmt.mime(), &asset)?;
    let mut err = None;
    let ctx2 = ctx.clone();
    let bytes = rc.artefact("signed", || match update_sign(&ctx2, json!({"title": "c21-update"}), fmt, &parent, |_| {}) {
        Ok(b) => b,
        Err(e) => {
            err = Some(e);
            vec![]
        }
    });
    if let Some(e) = err {
        return Err(format!("update sign: {e}"));
    }
    let ctx = if untrusted {
        let mut o = overlay.clone();
        sdk::merge(&mut o, &json!({"trust": {"trust_anchors": null, "trust_config": null, "user_anchors": null}}));
        Arc::new(sdk::make_context(&o))
    } else {
        ctx
    };
    let clean = sdk::read_plain(&ctx, fmt.mime(), &bytes).map_err(|e| format!("clean read: {e}"))?;
    if !clean.is_ok_state() {
        return Err(format!("SKIP update manifest does not validate right after signing: {}", clean.brief()));
    }
    if untrusted && clean.state != "Valid" {
        return Err(format!("untrusted reader expected Valid, got {}", clean.brief()));
    }
    // the update manifest has no hard binding: the binding in force is the parent's
    let labels: Vec<String> = clean.detailed.get("manifests").and_then(|m| m.as_object()).map(|m| m.keys().cloned().collect()).unwrap_or_default();
    if labels.len() < 2 {
        return Err("expected two manifests (parent + update)".into());
    }
    let bm = c01::box_map_of(fmt, &bytes);
    let mut found = None;
    for l in &labels {
        if Some(l.as_str()) == clean.active_label() {
            continue;
        }
        if let Some(x) = corrupt::declared_exclusions_of(&clean.detailed, l, &bytes, bm.as_deref()) {
            found = Some(x);
        }
    }
    let (kind, mut excl) = found.ok_or("parent has no hard binding")?;
    if kind == "data" {
        // offsets in the parent's assertion describe the layout before the update manifest was
        // added; the validator re-bases them on the (grown) manifest region of the final asset
        let locs = c2pa::verif::object_locations_from_stream(fmt.mime(), &mut std::io::Cursor::new(bytes.clone()))
            .map_err(|e| format!("locations: {}", err_kind(&e)))?;
        excl = locs.iter().filter(|l| l.2 == 0).map(|l| (l.0, l.0 + l.1)).collect();
        // sanity: the region must contain the store bytes
        let store = c2pa::jumbf_io::load_jumbf_from_memory(fmt.mime(), &bytes).map_err(|e| err_kind(&e))?;
        if let Some(at) = crate::jumbf::find_sub(&bytes, &store[8..]) {
            if !excl.iter().any(|(s, e)| at >= *s && at + store.len() - 8 <= *e) {
                return Err("reported manifest region does not contain the store".into());
            }
        }
    }
    Ok(Signed { fmt, binding, ctx, bytes, clean, kind, excl })
}

impl Property for C21 {
    fn meta(&self) -> Meta {
        Meta {
            id: "C21",
            level: "fault_enumeration",
            rule: "one evaluation = a real validation of an asset carrying an UPDATE manifest (BuilderIntent::Update signed over an already signed parent; JPEG data/box hash, PNG, MP4, TIFF, WAV, GIF; JPEG and MP4 once more validated without trust anchors, where the parent carries the tolerated failure signingCredential.untrusted and the asset is Valid rather than Trusted) after one stored-byte fault from C01's complete single-fault list (every position x 4 patterns, truncations, 1-byte insert/delete everywhere, appends, block faults); oracle: Valid/Trusted => the change is confined to the manifest region / the parent's declared exclusions and the report is unchanged. Plus 4 fixed rule-violating update manifests (forbidden action, no parent, two parents, own hard binding) offered to the Builder, which must fail to sign or read back non-Valid; plus the same rules against a signer gone wrong: a valid update manifest whose assertion is edited (action c2pa.published -> c2pa.converted, parentOf -> inputTo / componentOf, a custom assertion relabelled c2pa.hash.data), the claim's assertion digest repaired and the claim signed again with the same credentials through the SDK's own cose_sign (hook H9), re-embedded by the real handler: never Valid/Trusted; the identical pipeline with a rule-abiding edit is the control and must stay Valid. Distinct = (case, fault)",
            assumptions: &[
                "for data-hash parents the excluded region on the final asset is the manifest region reported by the handler (cross-checked to contain the store bytes), because the validator re-bases the parent's exclusion onto it",
                "the space of crafted rule-violating update manifests beyond the four listed is not explored",
            ],
            real: &["c2pa SDK builder (update intent), reader/validator incl. exclusion re-basing"],
            stubbed: &["storage between sign and read"],
            crash_prop: "C10",
        }
    }

    fn runs(&self, tier: Tier) -> u64 {
        let n = cases().len() as u64 * SHARDS + 3;
        match tier {
            Tier::Quick => n,
            Tier::Thorough => n * 3,
        }
    }

    fn exhaustive(&self, _tier: Tier) -> bool {
        true
    }

    fn run(&self, rc: &mut RunCtx) -> RunOut {
        let mut out = RunOut::default();
        let cs = cases();
        let per = cs.len() as u64 * SHARDS + 3;
        let variant = rc.idx / per;
        let within = rc.idx % per;
        // the three rule runs (JPEG, PNG, MP4) come first: a truncated batch still has them
        if within < 3 {
            return rule_violations(rc, variant, within);
        }
        let within = within - 3;
        let (fmt, binding) = cs[(within / SHARDS) as usize];
        let untrusted = (within / SHARDS) as usize >= UNTRUSTED_FROM;
        let shard = within % SHARDS;
        let tag = format!("update:{}:{:?}{}:v{variant}", fmt.name(), binding, if untrusted { ":no-trust-anchors" } else { "" });
        let s = match build(rc, fmt, binding, variant, untrusted) {
            Ok(s) => s,
            Err(e) if e.starts_with("SKIP") => {
                // the round trip of an update manifest on this format is C03's business
                out.probe(&format!("skipped:{}:{}", fmt.name(), e));
                out.evals += 1;
                return out;
            }
            Err(e) => {
                out.harness_error = Some(format!("{tag}: {e}"));
                return out;
            }
        };
        let faults = corrupt::enumerate(s.bytes.len());
        let mut tally = std::collections::BTreeMap::<&'static str, u64>::new();
        for (i, f) in faults.iter().enumerate() {
            if i as u64 % SHARDS != shard {
                continue;
            }
            let sub = i as u64;
            if !rc.want_sub(sub) {
                continue;
            }
            rc.mark(sub);
            let o = c01::judge(&mut out, sub, &s, f, &tag, "C21");
            *tally.entry(o).or_insert(0) += 1;
            if o != "noop" {
                out.keys.push(hash_str(&format!("{tag}|{i}")));
            }
        }
        for (k, v) in &tally {
            out.probe_n(&format!("outcome:{k}"), *v);
        }
        if shard == 0 {
            out.sample = Some(json!({"scenario": tag, "signed_len": s.bytes.len(), "parent_binding": s.kind,
                "excluded_on_final_asset": s.excl, "faults_total": faults.len(), "outcomes_this_shard": tally}));
        }
        out.digest = hash_str(&format!("{tag}|{}|{:?}", faults.len(), tally));
        out
    }
}

fn rule_violations(rc: &mut RunCtx, variant: u64, which: u64) -> RunOut {
    let mut out = RunOut::default();
    let fmts = [Fmt::Jpeg, Fmt::Png, Fmt::Mp4];
    let fmt = fmts[(which % 3) as usize];
    let ctx = Arc::new(sdk::make_context(&json!({})));
    let mut ar = Rng::new(hash_str(&format!("{}-{variant}-c21r", rc.seed)));
    let asset = assets::generate(fmt, &mut ar);
    let Ok(parent) = sdk::sign_plain(&ctx, &sdk::simple_definition("c21-parent"), "ed25519", fmt.mime(), &asset) else {
        out.harness_error = Some("parent sign failed".into());
        return out;
    };
    let other_asset = assets::generate(fmt, &mut ar);
    let other = sdk::sign_plain(&ctx, &sdk::simple_definition("c21-other"), "ed25519", fmt.mime(), &other_asset).unwrap_or_default();
    type Tw = Box<dyn FnOnce(&mut Builder)>;
    let cases: Vec<(&str, serde_json::Value, Vec<u8>, Tw)> = vec![
        ("forbidden-action", json!({"title": "u", "assertions": [{"label": "c2pa.actions", "data": {"actions": [{"action": "c2pa.cropped"}]}}]}), parent.clone(), Box::new(|_| {})),
        ("no-parent", json!({"title": "u"}), asset.clone(), Box::new(|_| {})),
        ("two-parents", json!({"title": "u"}), parent.clone(), Box::new(move |b: &mut Builder| {
            let _ = b.add_ingredient_from_stream(json!({"title": "p2", "relationship": "parentOf"}).to_string(), fmt.mime(), &mut std::io::Cursor::new(other.clone()));
        })),
        ("own-hard-binding", json!({"title": "u", "assertions": [{"label": "c2pa.hash.data", "data": {"exclusions": [{"start": 0, "length": 1}], "name": "x", "alg": "sha256", "hash": "AAAAAAAAAAAAAAAAAAAAAAAAAAAAAAAAAAAAAAAAAAA=", "pad": ""}}]}), parent.clone(), Box::new(|_| {})),
    ];
    for (i, (name, def, src, tweak)) in cases.into_iter().enumerate() {
        let sub = i as u64;
        if !rc.want_sub(sub) {
            continue;
        }
        out.evals += 1;
        out.fault("rule_violating_update");
        out.keys.push(hash_str(&format!("rule|{name}|{}", fmt.name())));
        let r = sdk::guarded(|| update_sign(&ctx, def, fmt, &src, tweak));
        let r = match r {
            Ok(r) => r,
            Err(p) => {
                out.violate(sub, &format!("panic:{}", p.split('|').next().unwrap_or("?")), "G1 no panic", json!({"case": name, "panic": p}));
                continue;
            }
        };
        match r {
            Err(e) => out.probe(&format!("rule:{name}:sign-refused:{e}")),
            Ok(bytes) => match sdk::read_plain(&ctx, fmt.mime(), &bytes) {
                Err(e) => out.probe(&format!("rule:{name}:read-err:{e}")),
                Ok(rep) if !rep.is_ok_state() => out.probe(&format!("rule:{name}:invalid")),
                Ok(rep) => {
                    // Valid is a violation only if the result really is an update manifest with the
                    // forbidden part (the SDK may legitimately have dropped / repaired it)
                    let am = rep.active_manifest().cloned().unwrap_or(json!(null));
                    let n_parent = am.get("ingredients").and_then(|i| i.as_array()).map(|a| a.iter().filter(|x| x.get("relationship").and_then(|r| r.as_str()) == Some("parentOf")).count()).unwrap_or(0);
                    let has_crop = serde_json::to_string(&am).unwrap_or_default().contains("c2pa.cropped");
                    let active = rep.active_label().unwrap_or("").to_string();
                    let hard = rep.detailed.get("manifests").and_then(|m| m.get(&active)).and_then(|m| m.get("assertion_store")).and_then(|a| a.as_object()).map(|a| a.keys().any(|k| k.starts_with("c2pa.hash."))).unwrap_or(false);
                    let is_update = !hard;
                    let bad = match name {
                        "forbidden-action" => is_update && has_crop,
                        "no-parent" => is_update && n_parent == 0,
                        "two-parents" => is_update && n_parent >= 2,
                        _ => false, // own-hard-binding: a Valid result with a hard binding is a standard manifest, allowed
                    };
                    if bad {
                        out.violate(sub, &format!("update-rule-not-enforced:{name}"), "C21 update manifest with forbidden part is never Valid",
                            json!({"case": name, "format": fmt.name(), "state": rep.state, "parentOf": n_parent, "has_hard_binding": hard}));
                    } else {
                        out.probe(&format!("rule:{name}:valid-but-repaired(update={is_update},parents={n_parent},hard={hard})"));
                    }
                }
            },
        }
    }
    // the same rules against a signer gone wrong: a valid update manifest whose assertion is
    // edited, with the claim's digest repaired and the claim signed again with the same
    // credentials (crate::forge), re-embedded by the real handler
    let signer = sdk::make_signer("ed25519");
    let base_def = json!({"title": "u", "assertions": [
        {"label": "c2pa.actions", "data": {"actions": [{"action": "c2pa.published"}]}},
        {"label": "org.sim.note14", "data": {"note": "x"}, "created": true}]});
    c2pa::verif::set_random_seed(Some(hash_str(&format!("c21-forge-{}-{variant}", rc.seed))));
    let base = match update_sign(&ctx, base_def, fmt, &parent, |_| {}) {
        Ok(b) => b,
        Err(e) => {
            out.probe(&format!("forge:base-update-refused:{e}"));
            return out;
        }
    };
    let store = c2pa::jumbf_io::load_jumbf_from_memory(fmt.mime(), &base).unwrap_or_default();
    let lay = crate::forge::layout(&store);
    let find = |prefix: &str| lay.as_ref().and_then(|l| l.assertions.iter().find(|a| a.0.starts_with(prefix)).map(|a| a.0.clone())).unwrap_or_default();
    let (actions_l, ingredient_l) = (find("c2pa.actions"), find("c2pa.ingredient"));
    let reembed = |st: &[u8]| -> Result<Vec<u8>, String> {
        let mut o = std::io::Cursor::new(Vec::new());
        c2pa::jumbf_io::save_jumbf_to_stream(fmt.mime(), &mut std::io::Cursor::new(base.clone()), &mut o, st).map_err(|e| err_kind(&e))?;
        Ok(o.into_inner())
    };
    type Forge<'a> = Box<dyn Fn() -> Option<Vec<u8>> + 'a>;
    let forged: Vec<(&str, bool, Forge)> = vec![
        // control: the same pipeline with an edit that breaks no rule must stay Valid
        ("control-allowed-action", false, Box::new(|| crate::forge::edit_assertion_and_resign(&store, &actions_l, b"c2pa.published", b"c2pa.published", signer.as_ref()))),
        ("forbidden-action", true, Box::new(|| crate::forge::edit_assertion_and_resign(&store, &actions_l, b"c2pa.published", b"c2pa.converted", signer.as_ref()))),
        ("no-parent", true, Box::new(|| crate::forge::edit_assertion_and_resign(&store, &ingredient_l, b"\x68parentOf", b"\x67inputTo", signer.as_ref()))),
        ("parent-becomes-component", true, Box::new(|| crate::forge::edit_assertion_and_resign(&store, &ingredient_l, b"\x68parentOf", b"\x6bcomponentOf", signer.as_ref()))),
        ("own-hard-binding", true, Box::new(|| crate::forge::relabel_and_resign(&store, "org.sim.note14", "c2pa.hash.data", signer.as_ref()))),
    ];
    for (i, (name, violating, f)) in forged.iter().enumerate() {
        let sub = 100 + i as u64;
        if !rc.want_sub(sub) {
            continue;
        }
        out.evals += 1;
        out.fault("forged_resigned_update");
        out.keys.push(hash_str(&format!("forge|{name}|{}", fmt.name())));
        let Some(st) = f() else {
            out.probe(&format!("forge:{name}:not-built"));
            continue;
        };
        let r = sdk::guarded(|| reembed(&st).and_then(|a| sdk::read_plain(&ctx, fmt.mime(), &a).map_err(|e| format!("read:{e}"))));
        match r {
            Err(p) => out.violate(sub, &format!("panic:{}", p.split('|').next().unwrap_or("?")), "G1 no panic", json!({"case": name, "panic": p})),
            Ok(Err(e)) => {
                out.probe(&format!("forge:{name}:err:{}", e.chars().take(40).collect::<String>()));
                if !violating {
                    out.harness_error = Some(format!("forge control failed: {e}"));
                }
            }
            Ok(Ok(rep)) if !rep.is_ok_state() => {
                out.probe(&format!("forge:{name}:invalid"));
                if !violating {
                    out.harness_error = Some(format!("forge control not valid: {}", rep.brief()));
                }
            }
            Ok(Ok(rep)) => {
                if *violating {
                    out.violate(sub, &format!("update-rule-not-enforced:forged:{name}"), "C21 an update manifest with a forbidden part is never Valid, whoever signed it",
                        json!({"case": name, "format": fmt.name(), "state": rep.state}));
                } else {
                    out.probe(&format!("forge:{name}:valid"));
                }
            }
        }
    }
    out.sample = Some(json!({"scenario": "rule-violating update manifests", "format": fmt.name(), "probes": out.probes}));
    out
}
