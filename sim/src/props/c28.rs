//! C28 — no network access unless the configuration enables it.
//! The simulated wire sits under the default stack (hook H3), so any request from anywhere in
//! the SDK - also from code that builds its own Context - is seen.

use std::sync::Arc;

use c2pa::{Builder, Reader};
use serde_json::json;

use crate::{
    assets::{self, Fmt},
    exec::block_on,
    harness::{Meta, Property, RunCtx, RunOut, Tier},
    net::{self, Resp},
    report::{err_full, err_kind, Report},
    rng::{hash_str, Rng},
    sdk,
};

pub struct C28;

const FMTS: [Fmt; 5] = [Fmt::Jpeg, Fmt::Png, Fmt::Tiff, Fmt::Wav, Fmt::Mp3];

fn gen_manifest_url(r: &mut Rng) -> String {
    // already in the url crate's normal form, so that the SDK's own normalisation is the identity
    let path = match r.below(6) {
        0 => format!("/m/{}.c2pa", r.ident(1, 8)),
        1 => format!("/a%20b/{}.c2pa", r.ident(1, 4)),
        2 => format!("/m.c2pa?x=1&y={}", r.below(100)),
        3 => format!("/m.c2pa?name={}&k=%3Cv%3E", r.ident(1, 4)),
        4 => format!("/{}/m.c2pa#frag", r.ident(1, 4)),
        _ => "/m.c2pa".to_string(),
    };
    let port = *r.pick(&["", "", ":8080"]);
    let scheme = *r.pick(&["https", "http"]);
    format!("{scheme}://manifests.sim.example{port}{path}")
}

impl Property for C28 {
    fn meta(&self) -> Meta {
        Meta {
            id: "C28",
            level: "exploration",
            rule: "one evaluation = one real SDK operation (Reader::with_stream sync/async, Builder::add_ingredient_from_stream, Builder::sign with or without a signer time-authority URL) on an asset with an embedded, remote-only (set_remote_url + set_no_embed) or remote+embedded manifest, or an embedded manifest signed with a certificate of the PKI pool whose AIA extension names an OCSP responder (ocsp.sim.example), under a seeded combination of verify.remote_manifest_fetch, verify.ocsp_fetch, core.allowed_network_hosts, with the simulated wire under the default HTTP stack recording every request and the scripted manifest host / TSA behaving honestly or misbehaving (404, transport error, truncated body, error mid-body, lying Content-Length). Oracle on the wire log: a request is forbidden iff the setting that enables its class is off or no URL of that class was configured (remote manifest: host manifests.sim.example; time stamp: host tsa.sim.example; OCSP: host ocsp.sim.example, allowed only while validating the AIA-certificate asset with verify.ocsp_fetch on and no allow-list shutting the responder out; anything else: always forbidden) - allowed requests are never required; the fetched URI equals the configured one; with fetching off a remote-only asset yields Err(RemoteManifestUrl(u)) with u equal to the embedded URL. Distinct = (operation, asset kind, settings, peer behaviour, URL shape)",
            assumptions: &["OCSP and did:web URLs are never configured in this workload (fixture certificates carry no AIA), so any such request would be forbidden", "generated URLs are already in the url crate's normal form"],
            real: &["Reader, Builder, Store::fetch_remote_manifest, default Signer::send_timestamp_request (own Context::new()), default resolver stack"],
            stubbed: &["HTTP client (SimNet)", "manifest host and TSA peers (scripted)"],
            crash_prop: "C10",
        }
    }

    fn runs(&self, tier: Tier) -> u64 {
        match tier {
            Tier::Quick => 5 * 640,
            Tier::Thorough => 5 * 12_000,
        }
    }

    fn run(&self, rc: &mut RunCtx) -> RunOut {
        let mut out = RunOut::default();
        let fmt = FMTS[(rc.idx % 5) as usize];
        let mut r = rc.rng.fork("w");
        let asset = assets::generate(fmt, &mut r);
        let url = gen_manifest_url(&mut r);
        let base_ctx = Arc::new(sdk::make_context(&json!({})));
        // three kinds of signed asset, produced with the wire absent
        let make = |remote: bool, no_embed: bool| -> Result<(Vec<u8>, Vec<u8>), String> {
            let mut b = Builder::from_shared_context(&base_ctx).with_definition(sdk::simple_definition("c28")).map_err(|e| err_kind(&e))?;
            if remote {
                b.set_remote_url(url.clone());
            }
            if no_embed {
                b.set_no_embed(true);
            }
            let mut d = std::io::Cursor::new(Vec::new());
            let m = b.sign(sdk::make_signer("ed25519").as_ref(), fmt.mime(), &mut std::io::Cursor::new(asset.clone()), &mut d).map_err(|e| err_kind(&e))?;
            Ok((d.into_inner(), m))
        };
        // a fourth kind: embedded manifest signed with a certificate that names an OCSP responder
        // (ocsp.sim.example) in its AIA extension - the only kind that can provoke OCSP traffic
        let make_aia = || -> Result<(Vec<u8>, Vec<u8>), String> {
            if !crate::pki::pool().join("root.pem").exists() {
                return Err("no-pki-pool".into());
            }
            let signer = crate::pki::ee_signer("ee_now")?;
            let mut b = Builder::from_shared_context(&base_ctx).with_definition(sdk::simple_definition("c28")).map_err(|e| err_kind(&e))?;
            let mut d = std::io::Cursor::new(Vec::new());
            let m = b.sign(signer.as_ref(), fmt.mime(), &mut std::io::Cursor::new(asset.clone()), &mut d).map_err(|e| err_kind(&e))?;
            Ok((d.into_inner(), m))
        };
        let kinds = ["embedded", "remote-only", "remote+embedded", "embedded-aia-cert"];
        let mut assets_k: Vec<Option<(Vec<u8>, Vec<u8>)>> = Vec::new();
        for (i, _) in kinds.iter().enumerate() {
            let made = if i == 3 {
                c2pa::verif::set_clock(Some((crate::pki::window("ee_now").0 + crate::pki::window("ee_now").1) / 2));
                let x = make_aia();
                c2pa::verif::set_clock(None);
                x
            } else {
                make(i == 1 || i == 2, i == 1)
            };
            match made {
                Ok(x) => assets_k.push(Some(x)),
                Err(e) => {
                    out.probe(&format!("cannot-make:{}:{}:{e}", kinds[i], fmt.name()));
                    assets_k.push(None);
                }
            }
        }
        let cases = if rc.tier == Tier::Quick { 40 } else { 60 };
        for c in 0..cases {
            let sub = c as u64;
            let kind = r.below(4) as usize;
            let fetch = r.chance(1, 2);
            let ocsp = r.chance(1, 2);
            let op = r.below(5); // 0,1 read sync/async, 2 add ingredient, 3 sign no tsa, 4 sign with tsa
            let allow_list = r.below(4); // 0,1 none; 2 includes the manifest host; 3 excludes it
            let peer = r.below(8);
            if !rc.want_sub(sub) {
                continue;
            }
            let Some((bytes, manifest)) = assets_k[kind].clone() else { continue };
            let mut settings = json!({"verify": {"remote_manifest_fetch": fetch, "ocsp_fetch": ocsp}});
            if kind == 3 {
                // the pool's root is trusted, so that the chain is looked at like a real one
                settings["trust"] = json!({"trust_anchors": String::from_utf8_lossy(&crate::pki::read("root.pem")), "trust_config": sdk::TRUST_CONFIG});
            }
            match allow_list {
                2 => settings["core"] = json!({"allowed_network_hosts": ["manifests.sim.example", "manifests.sim.example:8080", "tsa.sim.example"]}),
                3 => settings["core"] = json!({"allowed_network_hosts": ["other.sim.example"]}),
                _ => {}
            }
            let ctx = Arc::new(sdk::make_context(&settings));
            let m2 = manifest.clone();
            net::install(Box::new(move |req, _n| {
                if req.uri.contains("manifests.sim.example") {
                    let mut resp = Resp::ok(m2.clone());
                    match peer {
                        0 => resp = Resp::status(404),
                        1 => resp.transport_error = true,
                        2 => resp.body.truncate(m2.len() / 2),
                        3 => resp.body_fail_after = Some(m2.len() / 3),
                        4 => resp.headers.push(("content-length".into(), "18446744073709551615".into())),
                        5 => resp.headers.push(("content-length".into(), "68719476736".into())),
                        6 => resp.headers.push(("content-length".into(), "3".into())),
                        _ => resp.headers.push(("content-length".into(), format!("{}", m2.len()))),
                    }
                    resp
                } else if req.uri.contains("tsa.sim.example") {
                    let mut resp = Resp::ok(vec![0x30, 0x03, 0x02, 0x01, 0x00]);
                    resp.headers.push(("content-type".into(), "application/timestamp-reply".into()));
                    if peer == 5 {
                        resp.headers.push(("content-length".into(), "68719476736".into()));
                    }
                    if peer == 4 {
                        resp.headers.push(("content-length".into(), "18446744073709551615".into()));
                    }
                    resp
                } else if req.uri.contains("ocsp.sim.example") {
                    let mut resp = Resp::ok(crate::pki::read("ocsp_good.der"));
                    resp.headers.push(("content-type".into(), "application/ocsp-response".into()));
                    match peer {
                        0 => resp = Resp::status(404),
                        1 => resp.transport_error = true,
                        2 => resp.body.truncate(40),
                        _ => {}
                    }
                    resp
                } else {
                    Resp::status(404)
                }
            }));
            out.evals += 1;
            let opname = ["read", "read_async", "add_ingredient", "sign", "sign_tsa"][op as usize];
            let tag = format!("{opname}:{}:{}:fetch={fetch}:allow={allow_list}:peer={peer}", fmt.name(), kinds[kind]);
            let res = sdk::guarded(|| -> Result<String, String> {
                match op {
                    0 => Reader::from_shared_context(&ctx).with_stream(fmt.mime(), std::io::Cursor::new(bytes.clone())).map(|r| Report::from_reader(&r).brief()).map_err(|e| err_full(&e)),
                    1 => block_on(Reader::from_shared_context(&ctx).with_stream_async(fmt.mime(), std::io::Cursor::new(bytes.clone()))).map(|r| Report::from_reader(&r).brief()).map_err(|e| err_full(&e)),
                    2 => {
                        let mut b = Builder::from_shared_context(&ctx);
                        b.add_ingredient_from_stream(json!({"title": "i", "relationship": "componentOf"}).to_string(), fmt.mime(), &mut std::io::Cursor::new(bytes.clone()))
                            .map(|_| "ok".to_string())
                            .map_err(|e| err_full(&e))
                    }
                    _ => {
                        let (c, k, a) = sdk::cert_and_key("ed25519");
                        let tsa = if op == 4 { Some("http://tsa.sim.example/ts".to_string()) } else { None };
                        let signer = c2pa::create_signer::from_keys(c, k, a, tsa).map_err(|e| err_full(&e))?;
                        let mut b = Builder::from_shared_context(&ctx).with_definition(sdk::simple_definition("c28s")).map_err(|e| err_full(&e))?;
                        let mut d = std::io::Cursor::new(Vec::new());
                        b.sign(signer.as_ref(), fmt.mime(), &mut std::io::Cursor::new(asset.clone()), &mut d).map(|_| "signed".to_string()).map_err(|e| err_full(&e))
                    }
                }
            });
            let log = net::uninstall();
            let res = match res {
                Ok(r) => r,
                Err(p) => {
                    out.violate(sub, &format!("panic:{}", p.split('|').next().unwrap_or("?")), "G1 no panic", json!({"scenario": tag, "url": url, "panic": p}));
                    continue;
                }
            };
            out.keys.push(hash_str(&format!("{tag}|{url}")));
            out.fault(["peer_404", "peer_transport_error", "peer_truncated_body", "peer_body_error", "peer_content_length_max", "peer_content_length_64g", "peer_content_length_short", "peer_honest"][peer as usize]);
            out.probe_n("requests_on_wire", log.len() as u64);
            let references_remote = (kind == 1 || kind == 2) && op <= 2;
            for rq in &log {
                let class = if rq.uri.contains("manifests.sim.example") { "remote-manifest" } else if rq.uri.contains("tsa.sim.example") { "timestamp" } else if rq.uri.contains("ocsp.sim.example") { "ocsp" } else { "other" };
                let forbidden = match class {
                    "remote-manifest" => !fetch || !references_remote || allow_list == 3,
                    "timestamp" => op != 4,
                    // only while validating the asset whose certificate names the responder, with
                    // verify.ocsp_fetch on and the responder not shut out by an allow-list
                    "ocsp" => !ocsp || kind != 3 || op > 2 || allow_list >= 2,
                    _ => true,
                };
                if forbidden {
                    out.violate(sub, &format!("forbidden-request:{class}:{opname}"), "C28 no HTTP request unless the corresponding setting or signer asks for it",
                        json!({"scenario": tag, "request": rq.uri, "settings": settings, "wire": log.iter().map(|r| r.uri.clone()).collect::<Vec<_>>()}));
                } else if class == "remote-manifest" {
                    out.probe("allowed-remote-manifest-fetch");
                    // same URL as configured (fragment is not sent on the wire)
                    let want = url.split('#').next().unwrap_or("");
                    if rq.uri != want {
                        let cls = if rq.uri.contains("&amp;") { "xml-entity-not-decoded" } else { "other" };
                        out.violate(sub, &format!("fetched-url-differs-from-configured:{cls}"), "C28 the request goes to the URL that was configured",
                            json!({"scenario": tag, "configured": url, "requested": rq.uri}));
                    }
                } else if class == "ocsp" {
                    out.probe("allowed-ocsp-request");
                } else {
                    out.probe("allowed-timestamp-request");
                }
            }
            // remote-only asset with fetching off: the remote-manifest error carries the URL
            if kind == 1 && !fetch && op <= 1 {
                match &res {
                    Err(e) if e.starts_with("RemoteManifestUrl(") => {
                        let got = e.trim_start_matches("RemoteManifestUrl(\"").trim_end_matches("\")").replace("\\\"", "\"").replace("\\'", "'");
                        if got != url {
                            let cls = if got.contains("&amp;") { "xml-entity-not-decoded" } else { "other" };
                            out.violate(sub, &format!("remote-url-in-error-differs:{cls}"), "C28 the remote-manifest error carries the referenced URL",
                                json!({"scenario": tag, "embedded": url, "reported": got}));
                        } else {
                            out.probe("remote-url-error-exact");
                        }
                    }
                    other => out.violate(sub, &format!("remote-only-fetch-off-wrong-result:{}", other.as_ref().map(|_| "Ok".to_string()).unwrap_or_else(|e| e.split('(').next().unwrap_or("").to_string())),
                        "C28 with remote manifest fetching disabled a remote-only asset yields the remote-manifest error",
                        json!({"scenario": tag, "result": format!("{other:?}").chars().take(200).collect::<String>()})),
                }
            }
            if c == 0 {
                out.sample = Some(json!({"scenario": tag, "url": url, "result": format!("{res:?}").chars().take(120).collect::<String>(), "wire": log.iter().map(|r| r.uri.clone()).collect::<Vec<_>>()}));
            }
        }
        out.digest = hash_str(&format!("{}|{}|{:?}", rc.idx, out.evals, out.probes));
        out
    }
}
