//! C22 — saving and restoring a working store preserves the manifest.

use std::sync::Arc;

use c2pa::Builder;
use serde_json::{json, Value};

use crate::{
    assets::{self, Fmt},
    corrupt::Fault,
    defs,
    harness::{Meta, Property, RunCtx, RunOut, Tier},
    props::c01::first_diff,
    report::err_kind,
    rng::hash_str,
    sdk,
    stream::{self, FaultPlan, SimStream},
};

pub struct C22;

fn sign_and_report(ctx: &Arc<c2pa::Context>, b: &mut Builder, fmt: Fmt, asset: &[u8]) -> Result<Value, String> {
    let mut d = std::io::Cursor::new(Vec::new());
    b.sign(sdk::make_signer("ed25519").as_ref(), fmt.mime(), &mut std::io::Cursor::new(asset.to_vec()), &mut d)
        .map_err(|e| format!("sign:{}", err_kind(&e)))?;
    let signed = d.into_inner();
    let rep = sdk::read_plain(ctx, fmt.mime(), &signed).map_err(|e| format!("read:{e}"))?;
    let mut v = rep.projected();
    // the bytes behind every thumbnail reference of the active manifest and its ingredients
    let mut thumbs = serde_json::Map::new();
    if let Ok(rd) = c2pa::Reader::from_shared_context(ctx).with_stream(fmt.mime(), std::io::Cursor::new(signed)) {
        let mut ids: Vec<(String, String)> = Vec::new();
        if let Some(m) = rep.active_manifest() {
            if let Some(id) = m.get("thumbnail").and_then(|t| t.get("identifier")).and_then(|i| i.as_str()) {
                ids.push(("claim".into(), id.to_string()));
            }
            for ing in m.get("ingredients").and_then(|i| i.as_array()).cloned().unwrap_or_default() {
                if let Some(id) = ing.get("thumbnail").and_then(|t| t.get("identifier")).and_then(|i| i.as_str()) {
                    ids.push((format!("ingredient:{}", ing.get("title").and_then(|t| t.as_str()).unwrap_or("?")), id.to_string()));
                }
            }
        }
        for (who, id) in ids {
            let mut o = std::io::Cursor::new(Vec::new());
            let v = match rd.resource_to_stream(&id, &mut o) {
                Ok(_) => format!("{:016x}:{}", crate::rng::hash_bytes(o.get_ref()), o.get_ref().len()),
                Err(e) => format!("unreadable:{}", err_kind(&e)),
            };
            thumbs.insert(who, json!(v));
        }
    }
    v["thumbnail_bytes"] = Value::Object(thumbs);
    // where a thumbnail is stored (in the ingredient's own manifest, or as a copy in the active
    // one) is representation; what is compared is the bytes it resolves to (above)
    if let Some(ms) = v.pointer_mut("/report/manifests").and_then(|m| m.as_object_mut()) {
        for (_, m) in ms.iter_mut() {
            if let Some(t) = m.get_mut("thumbnail").and_then(|t| t.as_object_mut()) {
                t.remove("identifier");
            }
            if let Some(ings) = m.get_mut("ingredients").and_then(|i| i.as_array_mut()) {
                for ing in ings {
                    if let Some(t) = ing.get_mut("thumbnail").and_then(|t| t.as_object_mut()) {
                        t.remove("identifier");
                    }
                }
            }
        }
    }
    // ... and with it the success entries that only say "this thumbnail assertion hashed fine"
    fn drop_thumb_successes(v: &mut Value) {
        match v {
            Value::Object(o) => {
                for (k, x) in o.iter_mut() {
                    if k == "success" || k == "informational" {
                        if let Some(a) = x.as_array_mut() {
                            a.retain(|e| !e.get("url").and_then(|u| u.as_str()).map(|u| u.contains("c2pa.thumbnail.")).unwrap_or(false));
                        }
                    } else {
                        drop_thumb_successes(x);
                    }
                }
            }
            Value::Array(a) => a.iter_mut().for_each(drop_thumb_successes),
            _ => {}
        }
    }
    drop_thumb_successes(&mut v);
    if let Some(c) = v.get_mut("codes").and_then(|c| c.as_array_mut()) {
        c.retain(|e| !(e.as_str().map(|s| s.contains("c2pa.thumbnail.") && s.contains("success")).unwrap_or(false)));
    }
    Ok(v)
}

impl Property for C22 {
    fn meta(&self) -> Meta {
        Meta {
            id: "C22",
            level: "exploration",
            rule: "one evaluation = a chain of 1-3 Builder::to_archive -> Builder::with_archive hops through SimStreams with seeded benign chunking, starting from a builder with a seeded definition (user assertions, 0-2 ingredients one of which is a signed asset), followed by signing the original and the restored builder with the same signer and comparing the read-back reports projected onto per-signing-invariant fields (labels by order, no instance ids / times / hashes); faulted variant: the archive bytes are truncated / torn / flipped on the simulated disk before restoring, and with_archive must either fail or restore a builder whose signed report equals the original's. Non-trivial = restore attempted; distinct = (format, chain length, ingredients, fault)",
            assumptions: &["automatic thumbnail generation stays disabled; a quarter of the runs supply a claim thumbnail and ingredient thumbnails as resources, another quarter use a signed ingredient that has a claim thumbnail of its own; thumbnails are compared by the bytes the Reader hands back"],
            real: &["Builder::to_archive / with_archive (working-store sign + reload), sign, Reader"],
            stubbed: &["archive streams (SimStream)", "storage of the archive between save and restore"],
            crash_prop: "C10",
        }
    }

    fn runs(&self, tier: Tier) -> u64 {
        match tier {
            Tier::Quick => 11 * 240,
            Tier::Thorough => 11 * 3000,
        }
    }

    fn run(&self, rc: &mut RunCtx) -> RunOut {
        let mut out = RunOut::default();
        let fmt: Fmt = assets::ALL[(rc.idx % 11) as usize];
        let mut r = rc.rng.fork("w");
        let mut g = defs::generate(&mut r, false);
        while g.claim_version != 2 {
            g = defs::generate(&mut r, false);
        }
        let n_ing = r.below(3);
        let hops = r.usize(1, 3);
        let ctx = Arc::new(sdk::make_context(&json!({})));
        let asset = assets::generate(fmt, &mut r);
        let tag = format!("{}:{}ing:{}hops", fmt.name(), n_ing, hops);
        // half of the runs carry binary resources: a claim thumbnail and ingredient thumbnails
        let thumb_mode = r.below(4); // 0,1 none; 2 caller-supplied thumbnails; 3 the signed ingredient's own claim thumbnail
        let with_thumbs = thumb_mode == 2;
        let own_thumb = thumb_mode == 3;
        let tn = 200 + r.below(3000) as usize;
        let thumb_bytes = r.bytes(tn);
        let tag = if with_thumbs { format!("{tag}:thumbs") } else if own_thumb { format!("{tag}:ingredient-claim-thumbnail") } else { tag };
        let mut def = g.def.clone();
        if with_thumbs {
            def["thumbnail"] = json!({"format": "image/jpeg", "identifier": "thumb.jpg"});
        }
        let build = |ctx: &Arc<c2pa::Context>| -> Result<Builder, String> {
            let mut b = Builder::from_shared_context(ctx).with_definition(def.clone()).map_err(|e| err_kind(&e))?;
            if with_thumbs {
                b.add_resource("thumb.jpg", std::io::Cursor::new(thumb_bytes.clone())).map_err(|e| format!("add_resource:{}", err_kind(&e)))?;
            }
            for i in 0..n_ing {
                let bytes = if i == 0 && own_thumb {
                    // a signed ingredient that carries a claim thumbnail of its own
                    let mut idef = sdk::simple_definition("ingredient");
                    idef["thumbnail"] = json!({"format": "image/jpeg", "identifier": "it.jpg"});
                    let mut ib = Builder::from_shared_context(ctx).with_definition(idef).map_err(|e| err_kind(&e))?;
                    ib.add_resource("it.jpg", std::io::Cursor::new(thumb_bytes.clone())).map_err(|e| format!("add_resource:{}", err_kind(&e)))?;
                    let mut d = std::io::Cursor::new(Vec::new());
                    ib.sign(sdk::make_signer("ed25519").as_ref(), fmt.mime(), &mut std::io::Cursor::new(asset.clone()), &mut d).map_err(|e| format!("sign_ing:{}", err_kind(&e)))?;
                    d.into_inner()
                } else if i == 0 {
                    sdk::sign_plain(ctx, &sdk::simple_definition("ingredient"), "ed25519", fmt.mime(), &asset)?
                } else {
                    asset.clone()
                };
                let mut ij = json!({"title": format!("ing{i}"), "relationship": "componentOf"});
                if with_thumbs {
                    let id = format!("ing{i}.jpg");
                    ij["thumbnail"] = json!({"format": "image/jpeg", "identifier": id});
                    b.add_resource(&id, std::io::Cursor::new([thumb_bytes.as_slice(), &[i as u8]].concat())).map_err(|e| format!("add_resource:{}", err_kind(&e)))?;
                }
                b.add_ingredient_from_stream(ij.to_string(), fmt.mime(), &mut std::io::Cursor::new(bytes))
                    .map_err(|e| format!("add_ing:{}", err_kind(&e)))?;
            }
            Ok(b)
        };
        c2pa::verif::set_random_seed(Some(hash_str(&format!("c22-{}-{}", rc.seed, rc.idx))));
        let mut orig = match build(&ctx) {
            Ok(b) => b,
            Err(e) => {
                out.harness_error = Some(format!("{tag}: build: {e}"));
                return out;
            }
        };
        // chain of hops
        let mut cur_archive: Vec<u8> = Vec::new();
        let mut cur = match build(&ctx) {
            Ok(b) => b,
            Err(e) => {
                out.harness_error = Some(format!("{tag}: build2: {e}"));
                return out;
            }
        };
        for h in 0..hops {
            let chunk = if r.chance(1, 2) { 0 } else { 1 + r.below(2048) as usize };
            let world = stream::new_world(FaultPlan { max_chunk: chunk, ..Default::default() }, Some(r.fork("c")));
            let mut s = SimStream::new(&world, 0, Vec::new());
            out.evals += 1;
            if let Err(e) = cur.to_archive(&mut s) {
                out.violate(h as u64, &format!("to_archive-fails:{}", err_kind(&e)), "C22 a builder can be archived", json!({"scenario": tag, "hop": h}));
                return out;
            }
            cur_archive = s.into_data();
            let world2 = stream::new_world(FaultPlan { max_chunk: chunk, ..Default::default() }, Some(r.fork("c2")));
            let rs = SimStream::new(&world2, 0, cur_archive.clone());
            cur = match Builder::from_shared_context(&ctx).with_archive(rs) {
                Ok(b) => b,
                Err(e) => {
                    out.violate(h as u64, &format!("with_archive-fails:{}", err_kind(&e)), "C22 an archive the builder wrote can be restored", json!({"scenario": tag, "hop": h, "archive_len": cur_archive.len()}));
                    return out;
                }
            };
            out.fault("benign_chunking");
        }
        let want = match sign_and_report(&ctx, &mut orig, fmt, &asset) {
            Ok(v) => v,
            Err(e) => {
                out.harness_error = Some(format!("{tag}: original does not sign: {e}"));
                return out;
            }
        };
        out.keys.push(hash_str(&format!("{tag}|{}|{:?}", g.title, g.assertions.iter().map(|a| a.0.clone()).collect::<Vec<_>>())));
        match sign_and_report(&ctx, &mut cur, fmt, &asset) {
            Err(e) => out.violate(10, &format!("restored-builder-does-not-sign:{}", e.split(':').next().unwrap_or("")), "C22 restored builder signs like the original", json!({"scenario": tag, "error": e})),
            Ok(got) => {
                if got != want {
                    let d = first_diff(&want, &got, "");
                    let cls: String = d.split(':').next().unwrap_or("").split('/').filter(|p| !p.is_empty() && !p.starts_with('<')).take(3).collect::<Vec<_>>().join("/");
                    // the thumbnail of an ingredient that has a manifest of its own is a class of its own
                    let cls = if d.contains("/ingredients[") && d.contains("/thumbnail: missing on the right") { format!("signed-ingredient-thumbnail-dropped:{}", if with_thumbs { "caller-supplied" } else { "its-own-claim-thumbnail" }) } else { cls };
                    out.violate(10, &format!("restored-report-differs:{cls}"), "C22 same reported manifest content after restore",
                        json!({"scenario": tag, "first_difference": d}));
                    if cls.starts_with("signed-ingredient-thumbnail-dropped") {
                        // look past it: what does not depend on that thumbnail must still agree
                        // (title, format, state, assertions, ingredient titles / relationships,
                        // the bytes of the claim thumbnail and of unsigned ingredients' thumbnails)
                        let strip = |v: &Value| -> Value {
                            let am = v.pointer("/report/active_manifest").and_then(|a| a.as_str()).unwrap_or("");
                            let m = v.pointer("/report/manifests").and_then(|m| m.get(am)).cloned().unwrap_or(Value::Null);
                            let ings: Vec<Value> = m.get("ingredients").and_then(|i| i.as_array()).map(|a| a.iter().map(|i| json!({
                                "title": i.get("title"), "relationship": i.get("relationship"), "signed": i.get("active_manifest").is_some()})).collect()).unwrap_or_default();
                            let signed_titles: Vec<String> = m.get("ingredients").and_then(|i| i.as_array()).map(|a| a.iter().filter(|i| i.get("active_manifest").is_some())
                                .filter_map(|i| i.get("title").and_then(|t| t.as_str()).map(|t| format!("ingredient:{t}"))).collect()).unwrap_or_default();
                            let mut tb = v.get("thumbnail_bytes").and_then(|t| t.as_object()).cloned().unwrap_or_default();
                            for t in &signed_titles {
                                tb.remove(t);
                            }
                            json!({"state": v.get("state"), "title": m.get("title"), "format": m.get("format"), "assertions": m.get("assertions"),
                                   "ingredients": ings, "thumbnail_bytes": tb})
                        };
                        let (w2, g2) = (strip(&want), strip(&got));
                        if w2 != g2 {
                            let d2 = first_diff(&w2, &g2, "");
                            let cls2: String = d2.split(':').next().unwrap_or("").split('/').filter(|p| !p.is_empty() && !p.starts_with('<')).take(3).collect::<Vec<_>>().join("/");
                            out.violate(11, &format!("restored-report-differs:{cls2}"), "C22 same reported manifest content after restore",
                                json!({"scenario": tag, "first_difference": d2, "beyond": "signed-ingredient-thumbnail-dropped"}));
                        }
                    }
                } else {
                    out.probe("restored-report-identical");
                }
            }
        }
        // (the archive is kept in the replay file: it is signed with per-run credentials)
        let cur_archive = rc.artefact("archive", || cur_archive.clone());
        // faulted variant: damage the last archive on the disk, restore must fail or be faithful
        let n_faults = if rc.tier == Tier::Quick { 12 } else { 30 };
        for k in 0..n_faults {
            let pos = r.usize(0, cur_archive.len().saturating_sub(1));
            let f = match r.below(4) {
                0 => Fault::Truncate { len: pos },
                1 => Fault::Flip { pos, pat: r.below(4) as u8 },
                2 => Fault::BlockDrop { start: pos.min(cur_archive.len().saturating_sub(64)), len: 64 },
                _ => Fault::Smash { pos: pos.min(cur_archive.len().saturating_sub(4)), len: 4, val: 0xFF },
            };
            let sub = 100 + k as u64;
            if !rc.want_sub(sub) {
                continue;
            }
            out.evals += 1;
            out.fault(f.kind());
            out.keys.push(hash_str(&format!("{tag}|{}|fault{k}", g.title)));
            let Some(m) = f.apply(&cur_archive) else {
                out.probe("damaged-archive-fault-was-a-no-op");
                continue;
            };
            let res = sdk::guarded(|| Builder::from_shared_context(&ctx).with_archive(std::io::Cursor::new(m.clone())).map_err(|e| err_kind(&e)));
            match res {
                Err(p) => out.violate(sub, &format!("panic:{}", p.split('|').next().unwrap_or("?")), "G1 no panic", json!({"scenario": tag, "fault": f.describe(), "panic": p})),
                Ok(Err(_)) => out.probe("damaged-archive-refused"),
                Ok(Ok(mut b)) => match sign_and_report(&ctx, &mut b, fmt, &asset) {
                    Err(_) => out.probe("damaged-archive-restored-but-does-not-sign"),
                    Ok(got) if got == want => out.probe("damaged-archive-restored-faithfully"),
                    Ok(_) => {
                        // archives are unsigned working stores; the statement is about archives the
                        // builder wrote, so a damaged archive that restores differently is counted,
                        // not judged
                        out.probe("damaged-archive-restored-different");
                    }
                },
            }
        }
        // archives are signed with a fresh ephemeral key and carry a metadata date, so their bytes -
        // and with them the effect of a stored-byte fault - differ from run to run: the faulted
        // variant is kept out of the determinism digest
        let stable: Vec<(&String, &u64)> = out.probes.iter().filter(|(k, _)| !k.starts_with("damaged-archive")).collect();
        out.sample = Some(json!({"scenario": tag, "archive_len": cur_archive.len(), "probes": out.probes}));
        out.digest = hash_str(&format!("{tag}|{stable:?}"));
        out
    }
}
