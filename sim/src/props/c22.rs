//! C22 — saving and restoring a working store preserves the manifest.

use std::sync::Arc;

use c2pa::Builder;
use serde_json::{json, Value};

use crate::{
    assets::{self, Fmt},
    corrupt::Fault,
    defs,
    harness::{Meta, Property, RunCtx, RunOut, Tier},
    props::c01::first_diff,
    report::err_kind,
    rng::hash_str,
    sdk,
    stream::{self, FaultPlan, SimStream},
};

pub struct C22;

fn sign_and_report(ctx: &Arc<c2pa::Context>, b: &mut Builder, fmt: Fmt, asset: &[u8]) -> Result<Value, String> {
    let mut d = std::io::Cursor::new(Vec::new());
    b.sign(sdk::make_signer("ed25519").as_ref(), fmt.mime(), &mut std::io::Cursor::new(asset.to_vec()), &mut d)
        .map_err(|e| format!("sign:{}", err_kind(&e)))?;
    let rep = sdk::read_plain(ctx, fmt.mime(), &d.into_inner()).map_err(|e| format!("read:{e}"))?;
    Ok(rep.projected())
}

impl Property for C22 {
    fn meta(&self) -> Meta {
        Meta {
            id: "C22",
            level: "exploration",
            rule: "one evaluation = a chain of 1-3 Builder::to_archive -> Builder::with_archive hops through SimStreams with seeded benign chunking, starting from a builder with a seeded definition (user assertions, 0-2 ingredients one of which is a signed asset), followed by signing the original and the restored builder with the same signer and comparing the read-back reports projected onto per-signing-invariant fields (labels by order, no instance ids / times / hashes); faulted variant: the archive bytes are truncated / torn / flipped on the simulated disk before restoring, and with_archive must either fail or restore a builder whose signed report equals the original's. Non-trivial = restore attempted; distinct = (format, chain length, ingredients, fault)",
            assumptions: &["thumbnails/resources beyond ingredient manifest data are not in the workload (thumbnails disabled)"],
            real: &["Builder::to_archive / with_archive (working-store sign + reload), sign, Reader"],
            stubbed: &["archive streams (SimStream)", "storage of the archive between save and restore"],
            crash_prop: "C10",
        }
    }

    fn runs(&self, tier: Tier) -> u64 {
        match tier {
            Tier::Quick => 11 * 60,
            Tier::Thorough => 11 * 3000,
        }
    }

    fn run(&self, rc: &mut RunCtx) -> RunOut {
        let mut out = RunOut::default();
        let fmt: Fmt = assets::ALL[(rc.idx % 11) as usize];
        let mut r = rc.rng.fork("w");
        let mut g = defs::generate(&mut r, false);
        while g.claim_version != 2 {
            g = defs::generate(&mut r, false);
        }
        let n_ing = r.below(3);
        let hops = r.usize(1, 3);
        let ctx = Arc::new(sdk::make_context(&json!({})));
        let asset = assets::generate(fmt, &mut r);
        let tag = format!("{}:{}ing:{}hops", fmt.name(), n_ing, hops);
        let build = |ctx: &Arc<c2pa::Context>| -> Result<Builder, String> {
            let mut b = Builder::from_shared_context(ctx).with_definition(g.def.clone()).map_err(|e| err_kind(&e))?;
            for i in 0..n_ing {
                let bytes = if i == 0 {
                    sdk::sign_plain(ctx, &sdk::simple_definition("ingredient"), "ed25519", fmt.mime(), &asset)?
                } else {
                    asset.clone()
                };
                b.add_ingredient_from_stream(json!({"title": format!("ing{i}"), "relationship": "componentOf"}).to_string(), fmt.mime(), &mut std::io::Cursor::new(bytes))
                    .map_err(|e| format!("add_ing:{}", err_kind(&e)))?;
            }
            Ok(b)
        };
        c2pa::verif::set_random_seed(Some(hash_str(&format!("c22-{}-{}", rc.seed, rc.idx))));
        let mut orig = match build(&ctx) {
            Ok(b) => b,
            Err(e) => {
                out.harness_error = Some(format!("{tag}: build: {e}"));
                return out;
            }
        };
        // chain of hops
        let mut cur_archive: Vec<u8> = Vec::new();
        let mut cur = match build(&ctx) {
            Ok(b) => b,
            Err(e) => {
                out.harness_error = Some(format!("{tag}: build2: {e}"));
                return out;
            }
        };
        for h in 0..hops {
            let chunk = if r.chance(1, 2) { 0 } else { 1 + r.below(2048) as usize };
            let world = stream::new_world(FaultPlan { max_chunk: chunk, ..Default::default() }, Some(r.fork("c")));
            let mut s = SimStream::new(&world, 0, Vec::new());
            out.evals += 1;
            if let Err(e) = cur.to_archive(&mut s) {
                out.violate(h as u64, &format!("to_archive-fails:{}", err_kind(&e)), "C22 a builder can be archived", json!({"scenario": tag, "hop": h}));
                return out;
            }
            cur_archive = s.into_data();
            let world2 = stream::new_world(FaultPlan { max_chunk: chunk, ..Default::default() }, Some(r.fork("c2")));
            let rs = SimStream::new(&world2, 0, cur_archive.clone());
            cur = match Builder::from_shared_context(&ctx).with_archive(rs) {
                Ok(b) => b,
                Err(e) => {
                    out.violate(h as u64, &format!("with_archive-fails:{}", err_kind(&e)), "C22 an archive the builder wrote can be restored", json!({"scenario": tag, "hop": h, "archive_len": cur_archive.len()}));
                    return out;
                }
            };
            out.fault("benign_chunking");
        }
        let want = match sign_and_report(&ctx, &mut orig, fmt, &asset) {
            Ok(v) => v,
            Err(e) => {
                out.harness_error = Some(format!("{tag}: original does not sign: {e}"));
                return out;
            }
        };
        out.keys.push(hash_str(&format!("{tag}|{}|{:?}", g.title, g.assertions.iter().map(|a| a.0.clone()).collect::<Vec<_>>())));
        match sign_and_report(&ctx, &mut cur, fmt, &asset) {
            Err(e) => out.violate(10, &format!("restored-builder-does-not-sign:{}", e.split(':').next().unwrap_or("")), "C22 restored builder signs like the original", json!({"scenario": tag, "error": e})),
            Ok(got) => {
                if got != want {
                    let d = first_diff(&want, &got, "");
                    let cls: String = d.split(':').next().unwrap_or("").split('/').filter(|p| !p.is_empty() && !p.starts_with('<')).take(3).collect::<Vec<_>>().join("/");
                    out.violate(10, &format!("restored-report-differs:{cls}"), "C22 same reported manifest content after restore",
                        json!({"scenario": tag, "first_difference": d}));
                } else {
                    out.probe("restored-report-identical");
                }
            }
        }
        // faulted variant: damage the last archive on the disk, restore must fail or be faithful
        let n_faults = if rc.tier == Tier::Quick { 12 } else { 30 };
        for k in 0..n_faults {
            let pos = r.usize(0, cur_archive.len().saturating_sub(1));
            let f = match r.below(4) {
                0 => Fault::Truncate { len: pos },
                1 => Fault::Flip { pos, pat: r.below(4) as u8 },
                2 => Fault::BlockDrop { start: pos.min(cur_archive.len().saturating_sub(64)), len: 64 },
                _ => Fault::Smash { pos: pos.min(cur_archive.len().saturating_sub(4)), len: 4, val: 0xFF },
            };
            let sub = 100 + k as u64;
            if !rc.want_sub(sub) {
                continue;
            }
            let Some(m) = f.apply(&cur_archive) else { continue };
            out.evals += 1;
            out.fault(f.kind());
            out.keys.push(hash_str(&format!("{tag}|{}|{}", g.title, f.describe())));
            let res = sdk::guarded(|| Builder::from_shared_context(&ctx).with_archive(std::io::Cursor::new(m.clone())).map_err(|e| err_kind(&e)));
            match res {
                Err(p) => out.violate(sub, &format!("panic:{}", p.split('|').next().unwrap_or("?")), "G1 no panic", json!({"scenario": tag, "fault": f.describe(), "panic": p})),
                Ok(Err(_)) => out.probe("damaged-archive-refused"),
                Ok(Ok(mut b)) => match sign_and_report(&ctx, &mut b, fmt, &asset) {
                    Err(_) => out.probe("damaged-archive-restored-but-does-not-sign"),
                    Ok(got) if got == want => out.probe("damaged-archive-restored-faithfully"),
                    Ok(_) => {
                        // archives are unsigned working stores; the statement is about archives the
                        // builder wrote, so a damaged archive that restores differently is counted,
                        // not judged
                        out.probe("damaged-archive-restored-different");
                    }
                },
            }
        }
        out.sample = Some(json!({"scenario": tag, "archive_len": cur_archive.len(), "probes": out.probes}));
        out.digest = hash_str(&format!("{tag}|{:?}", out.probes));
        out
    }
}
