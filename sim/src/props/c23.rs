//! C23 — cancellation is always reported as cancellation.
//! Crash-point enumeration: the progress callback returns false (or the context is cancelled)
//! at every invocation index k of every scenario; plus cross-thread cancel under the turnstile.

use std::sync::{
    atomic::{AtomicU64, Ordering},
    Arc,
};

use serde_json::json;

use crate::{
    assets::{self, Fmt},
    exec::PendSource,
    harness::{Meta, Property, RunCtx, RunOut, Tier},
    ops::{self, ExecEnv, Op, Outcome, Scenario},
    rng::hash_str,
    sdk::{self, Binding},
    stream::{self, FaultPlan},
    turnstile,
};

pub struct C23;

const OPS: [Op; 8] = [
    Op::Embeddable,
    Op::Sign,
    Op::SignSidecar,
    Op::Read,
    Op::ReadSidecar,
    Op::AddIngredient,
    Op::ToArchive,
    Op::WithArchive,
];

fn scenarios() -> Vec<(Op, Fmt, Binding, bool)> {
    let mut v = Vec::new();
    for op in OPS {
        for f in assets::ALL {
            if op == Op::Embeddable && !matches!(f, Fmt::Jpeg | Fmt::Png | Fmt::Gif | Fmt::Jxl) {
                continue;
            }
            for is_async in [false, true] {
                if is_async && !op.has_async() {
                    continue;
                }
                if op == Op::Embeddable {
                    v.push((op, f, Binding::Default, false));
                    continue;
                }
                v.push((op, f, Binding::Default, is_async));
                if sdk::fmt_supports_box(f) {
                    v.push((op, f, Binding::Box, is_async));
                }
            }
        }
    }
    v
}

fn shape_check(out: &mut RunOut, tag: &str, opname: &str, log: &[(String, u32, u32)]) {
    let mut prev: Option<(&str, u32)> = None;
    for (i, (ph, step, total)) in log.iter().enumerate() {
        let mut bad: Option<&str> = None;
        if *step < 1 {
            bad = Some("step<1");
        } else if *total != 0 && step > total {
            bad = Some("step>total");
        } else if let Some((pp, ps)) = prev {
            if pp == ph && *step <= ps {
                bad = Some("step-not-increasing");
            }
        }
        if let Some(b) = bad {
            out.violate(
                900_000 + i as u64,
                &format!("progress-shape:{opname}:{ph}:{b}"),
                "C23 progress steps positive, <= non-zero total, increasing within a phase run",
                json!({"scenario": tag, "invocation": i + 1, "phase": ph, "step": step, "total": total,
                       "previous": prev.map(|(p, s)| format!("{p} {s}")), "log": log.iter().map(|(p,s,t)| format!("{p} {s}/{t}")).collect::<Vec<_>>()}),
            );
        }
        prev = Some((ph.as_str(), *step));
    }
}

pub static EVENT_SEQ: AtomicU64 = AtomicU64::new(0);

/// runs per round that interleave two operations on one context
const INTERLEAVED: u64 = 8;

impl Property for C23 {
    fn meta(&self) -> Meta {
        Meta {
            id: "C23",
            level: "fault_enumeration",
            rule: "one evaluation = one execution of a real SDK operation (sign, sidecar sign, read, sidecar read, add-ingredient, to/with_archive; sync and async; data/box/BMFF hash; hash chunk knob 48 bytes so hashing phases tick many times) with the progress callback returning false - or calling Context::cancel() - exactly at invocation k, for EVERY k in 1..N of the recorded fault-free callback sequence; plus cross-thread runs where a second turnstile thread calls cancel() at a PRNG-chosen seam call. Non-trivial = the callback was really invoked k times; distinct = distinct (scenario, mode, k, phase, step, total) Eight more runs per round interleave two operations on one shared context at a checkpoint: while A is paused in its k-th progress callback the context is cancelled and a read B runs to its end on the same context (every k): both end with the cancellation error.",
            assumptions: &[
                "a cancel is only required to be reported when a checkpoint poll follows it",
                "progress-shape clause evaluated on the fault-free callback sequence",
            ],
            real: &["c2pa SDK", "Context::check_progress and all its call sites", "hash worker thread (hook H2) under the turnstile"],
            stubbed: &["caller streams (SimStream)", "async signer future (seeded Pendings around the real signer)"],
            crash_prop: "C23",
        }
    }

    fn runs(&self, tier: Tier) -> u64 {
        let n = scenarios().len() as u64 + INTERLEAVED;
        match tier {
            Tier::Quick => n,
            Tier::Thorough => n * 6,
        }
    }

    fn exhaustive(&self, _tier: Tier) -> bool {
        true
    }

    fn run(&self, rc: &mut RunCtx) -> RunOut {
        let mut out = RunOut::default();
        let scs = scenarios();
        // the last runs of a round: two operations on one context, interleaved at a checkpoint
        if rc.idx % (scs.len() as u64 + INTERLEAVED) >= scs.len() as u64 {
            crate::props::c24::interleaved_cancel(rc, &mut out, "C23", 0);
            out.digest = hash_str(&format!("interleave|{}", out.evals));
            return out;
        }
        let (op, fmt, binding, is_async) = scs[((rc.idx % (scs.len() as u64 + INTERLEAVED)) % scs.len() as u64) as usize];
        let rc_idx_round = rc.idx / (scs.len() as u64 + INTERLEAVED);
        let round = rc_idx_round;
        let knob = [700usize, 48, 4096, 200, 1500, 17][(round % 6) as usize];
        c2pa::verif::set_max_hash_buf(knob);
        let overlay = sdk::binding_overlay(binding);
        let vctx = Arc::new(sdk::make_context(&overlay));
        let mut ar = rc.rng.fork("asset");
        let asset = assets::generate(fmt, &mut ar);
        let def = sdk::simple_definition(&format!("t{}", rc.idx));
        let mut sc: Scenario = match ops::prepare(op, fmt, "ed25519", asset, def, &vctx) {
            Ok(s) => s,
            Err(e) => {
                out.harness_error = Some(format!("prepare: {e}"));
                c2pa::verif::set_max_hash_buf(0);
                return out;
            }
        };
        sc.no_followup = true;
        sc.signed = rc.artefact("signed", || sc.signed.clone());
        sc.sidecar = rc.artefact("sidecar", || sc.sidecar.clone());
        sc.archive = rc.artefact("archive", || sc.archive.clone());
        let tag = format!("{}{}:{}:{:?}:knob{}", op.name(), if is_async { "_async" } else { "" }, fmt.name(), binding, knob);
        let opname = format!("{}{}", op.name(), if is_async { "_async" } else { "" });
        let pend = |rc: &mut RunCtx| if is_async { Some(PendSource::new(rc.rng.fork("pend"), 3)) } else { None };

        // recording run
        let ctx = ops::make_ctx(&overlay);
        let world = stream::new_world(FaultPlan::default(), None);
        ops::cb_reset(Some(world.clone()), None);
        let p0 = pend(rc);
        let ctl = ops::exec(&sc, &ExecEnv { ctx: &ctx, verify_ctx: &vctx, world: &world, pend: p0 });
        let log = ops::cb_take_log();
        out.evals += 1;
        out.steps += stream::stats(&world).ops;
        if ctl.is_err() {
            out.harness_error = Some(format!("control {tag}: {}", ctl.brief()));
            c2pa::verif::set_max_hash_buf(0);
            return out;
        }
        let n = log.len();
        out.sample = Some(json!({"scenario": tag, "callbacks": n,
            "sequence": log.iter().take(40).map(|(p,s,t)| format!("{p} {s}/{t}")).collect::<Vec<_>>()}));
        shape_check(&mut out, &tag, &opname, &log);
        for (ph, _, _) in &log {
            out.probe(&format!("phase:{ph}"));
        }

        // every k, two modes
        for mode in 0..2u64 {
            for k in 1..=n {
                let sub = mode * 100_000 + k as u64;
                let pk = pend(rc); // drawn whether or not this sub runs (replay)
                if !rc.want_sub(sub) {
                    continue;
                }
                rc.mark(sub);
                let ctx = ops::make_ctx(&overlay);
                let world = stream::new_world(FaultPlan::default(), None);
                ops::cb_reset(Some(world.clone()), if mode == 0 { Some(k) } else { None });
                if mode == 1 {
                    ops::CB.with(|c| c.borrow_mut().flag_at = Some((k, ctx.clone())));
                }
                let r = ops::exec(&sc, &ExecEnv { ctx: &ctx, verify_ctx: &vctx, world: &world, pend: pk });
                let seen = ops::cb_take_log();
                ops::cb_reset(None, None);
                out.evals += 1;
                out.steps += stream::stats(&world).ops;
                if seen.len() < k {
                    out.probe("cancel_point_not_reached");
                    continue;
                }
                let (ph, st, tot) = &seen[k - 1];
                out.fault(if mode == 0 { "callback_false" } else { "cancel_flag_in_callback" });
                out.keys.push(hash_str(&format!("{tag}|{mode}|{k}|{ph}|{st}|{tot}")));
                if r.err_kind() != Some("OperationCancelled") {
                    out.violate(sub, &format!("cancel-swallowed:{opname}:{ph}"),
                        "C23 cancel at invocation k => Err(OperationCancelled)",
                        json!({"scenario": tag, "mode": if mode == 0 {"callback returns false"} else {"Context::cancel() inside callback"},
                               "k": k, "of": n, "at": format!("{ph} {st}/{tot}"), "observed": r.brief()}));
                }
            }
        }

        // cross-thread cancel under the turnstile
        let xruns = match rc.tier { Tier::Quick => 6, Tier::Thorough => 40 };
        for x in 0..xruns {
            let sub = 500_000 + x as u64;
            let sched_rng = rc.rng.fork("sched");
            let delay = rc.rng.below((n as u64 * 4).max(8));
            let pk = pend(rc);
            if !rc.want_sub(sub) {
                continue;
            }
            rc.mark(sub);
            let ctx = ops::make_ctx(&overlay);
            let other_ctx = ops::make_ctx(&overlay);
            let world = stream::new_world(FaultPlan::default(), None);
            world.lock().unwrap().yield_on_op = true;
            let replay = if rc.only_sub == Some(sub) { rc.schedule_in.clone() } else { None };
            EVENT_SEQ.store(0, Ordering::SeqCst);
            turnstile::begin(sched_rng, replay, 5);
            let cancel_seq = Arc::new(AtomicU64::new(u64::MAX));
            let cs2 = cancel_seq.clone();
            let ctx2 = ctx.clone();
            let h_cancel = turnstile::spawn(move || {
                for _ in 0..delay {
                    turnstile::yield_point("idle");
                }
                ctx2.cancel();
                cs2.store(EVENT_SEQ.fetch_add(1, Ordering::SeqCst), Ordering::SeqCst);
                turnstile::note("cancel");
            });
            let sc2 = sc.clone();
            let vctx2 = vctx.clone();
            let world2 = world.clone();
            let ctx1 = ctx.clone();
            let h_op = turnstile::spawn(move || {
                ops::cb_reset(Some(world2.clone()), None);
                let r = ops::exec(&sc2, &ExecEnv { ctx: &ctx1, verify_ctx: &vctx2, world: &world2, pend: pk });
                let log = ops::cb_take_log();
                let polls = ops::CB_SEQS.with(|s| std::mem::take(&mut *s.borrow_mut()));
                (r, log, polls)
            });
            // bystander: same op on another context must be unaffected
            let sc3 = sc.clone();
            let vctx3 = vctx.clone();
            let world3 = stream::new_world(FaultPlan::default(), None);
            world3.lock().unwrap().yield_on_op = true;
            let h_by = turnstile::spawn(move || {
                ops::cb_reset(Some(world3.clone()), None);
                let r = ops::exec(&sc3, &ExecEnv { ctx: &other_ctx, verify_ctx: &vctx3, world: &world3, pend: None });
                ops::cb_reset(None, None);
                r
            });
            turnstile::join_all();
            let tso = turnstile::end();
            let _ = h_cancel.join();
            let (r, _log, polls) = match h_op.join() {
                Ok(x) => x,
                Err(_) => {
                    out.violate(sub, &format!("panic:{opname}:cross-thread"), "G1 no panic", json!({"scenario": tag}));
                    continue;
                }
            };
            let by = h_by.join().unwrap_or(Outcome::Err("panic".into()));
            out.evals += 1;
            out.interleavings.push(tso.trace_digest);
            out.probe_n("turnstile_events", tso.events);
            out.probe_n("turnstile_switches", tso.switches);
            let cseq = cancel_seq.load(Ordering::SeqCst);
            let polled_after = polls.iter().any(|p| *p > cseq);
            out.fault("cross_thread_cancel");
            out.keys.push(hash_str(&format!("{tag}|x|{:016x}", tso.trace_digest)));
            if polled_after {
                out.probe("cancel_before_a_poll");
                if r.err_kind() != Some("OperationCancelled") {
                    let ph = _log.last().map(|l| l.0.clone()).unwrap_or_default();
                    out.schedule = Some(tso.decisions.clone());
                    out.violate(sub, &format!("cancel-swallowed:{opname}:{ph}"),
                        "C23 cancel() before a later checkpoint poll => Err(OperationCancelled)",
                        json!({"scenario": tag, "mode": "cross-thread cancel", "observed": r.brief(),
                               "cancel_event_seq": cseq, "poll_seqs": polls}));
                }
            } else {
                out.probe("cancel_after_last_poll");
            }
            if by.is_err() {
                out.schedule = Some(tso.decisions.clone());
                out.violate(sub, &format!("cancel-leaks-to-other-context:{opname}"),
                    "C23/C24 cancelling one context never affects another",
                    json!({"scenario": tag, "bystander": by.brief()}));
            }
        }
        c2pa::verif::set_max_hash_buf(0);
        out.digest = hash_str(&format!("{tag}|{n}|{}", out.evals));
        out
    }
}
