//! SimStream: the simulated "disk/pipe" every SDK stream argument is replaced with.
//!
//! All streams of one run share a `World`: a global operation counter, the fault plan, the
//! PRNG for chunking decisions, and an incremental digest of the operation log (used by the
//! determinism self-test and as the distinctness key of a run).

use std::{
    collections::BTreeMap,
    io::{self, Read, Seek, SeekFrom, Write},
    sync::{Arc, Mutex},
};

use crate::rng::Rng;

#[derive(Clone, Copy, Debug, PartialEq, Eq)]
pub enum OpKind {
    Read,
    Write,
    Seek,
    Flush,
}

impl OpKind {
    pub fn name(self) -> &'static str {
        match self {
            OpKind::Read => "read",
            OpKind::Write => "write",
            OpKind::Seek => "seek",
            OpKind::Flush => "flush",
        }
    }
}

#[derive(Clone, Debug, Default)]
pub struct FaultPlan {
    /// benign: deliver reads / accept writes in pieces of 1..=max_chunk bytes (0 = whole)
    pub max_chunk: usize,
    /// benign: length of the very first read of stream 0 (0 = not constrained)
    pub first_read_len: usize,
    /// failing: global op index at which the fault fires
    pub fail_at: Option<u64>,
    /// failing: every later op on any stream of the run fails too
    pub sticky: bool,
    /// failing: error kind to return (None = Other "simulated I/O error")
    pub interrupted: bool,
    /// failing: ENOSPC once this many bytes have been written in total
    pub enospc_after: Option<u64>,
}

#[derive(Debug, Default)]
pub struct World {
    pub seq: u64,
    pub plan: FaultPlan,
    pub rng: Option<Rng>,
    pub digest: u64,
    pub bytes_read: u64,
    pub bytes_written: u64,
    pub ops_by_kind: [u64; 4],
    /// label set by the progress callback of the run; faults are attributed to it
    pub phase: String,
    /// set when the fault fired: (op index, kind, stream id, phase)
    pub fired: Option<(u64, OpKind, u8, String)>,
    /// ops that failed because of stickiness after the first fault
    pub sticky_hits: u64,
    /// optional full op log (op index -> (kind, stream, phase)); only in counting mode
    pub record: bool,
    pub log: Vec<(OpKind, u8, String)>,
    /// write boundaries (total bytes written after each write), counting mode
    pub write_marks: Vec<u64>,
    pub probes: BTreeMap<String, u64>,
    /// turnstile active => every op is a yield point
    pub yield_on_op: bool,
    /// capture the SDK call site (backtrace) when the fault fires
    pub capture_site: bool,
    pub site: Option<String>,
    /// another party cancels this context at the instant stream op number .0 is entered
    pub cancel_at_op: Option<(u64, Arc<c2pa::Context>)>,
}

pub type WorldRef = Arc<Mutex<World>>;

pub fn new_world(plan: FaultPlan, rng: Option<Rng>) -> WorldRef {
    Arc::new(Mutex::new(World {
        plan,
        rng,
        digest: 0x1234_5678_9abc_def0,
        ..Default::default()
    }))
}

fn mix(d: &mut u64, v: u64) {
    let mut x = *d ^ v.wrapping_mul(0x9E3779B97F4A7C15);
    *d = crate::rng::splitmix(&mut x);
}

pub struct SimStream {
    pub world: WorldRef,
    pub id: u8,
    pub data: Vec<u8>,
    pub pos: u64,
    reads: u64,
}

fn sim_err(interrupted: bool) -> io::Error {
    if interrupted {
        io::Error::new(io::ErrorKind::Interrupted, "simulated EINTR")
    } else {
        io::Error::other("simulated I/O error")
    }
}

impl SimStream {
    pub fn new(world: &WorldRef, id: u8, data: Vec<u8>) -> Self {
        SimStream {
            world: world.clone(),
            id,
            data,
            pos: 0,
            reads: 0,
        }
    }

    pub fn into_data(self) -> Vec<u8> {
        self.data
    }

    /// Common prologue of every op: count, log, decide fault.  Returns Err when the op must fail,
    /// otherwise the chunk limit to apply (0 = none).
    fn enter(&mut self, kind: OpKind, arg: u64) -> io::Result<usize> {
        let yield_now;
        let r = {
            let mut w = self.world.lock().unwrap_or_else(|e| e.into_inner());
            let k = w.seq;
            w.seq += 1;
            w.ops_by_kind[kind as usize] += 1;
            mix(&mut w.digest, (kind as u64) << 56 | (self.id as u64) << 48 | (arg & 0xffff_ffff_ffff));
            if w.record {
                let ph = w.phase.clone();
                w.log.push((kind, self.id, ph));
            }
            yield_now = w.yield_on_op;
            if let Some((at, ctx)) = &w.cancel_at_op {
                if *at == k {
                    ctx.cancel();
                }
            }
            let already = w.fired.is_some();
            if already && w.plan.sticky {
                w.sticky_hits += 1;
                Err(sim_err(false))
            } else if !already && w.plan.fail_at == Some(k) {
                let ph = w.phase.clone();
                w.fired = Some((k, kind, self.id, ph));
                if w.capture_site {
                    w.site = Some(site_from_backtrace(
                        &std::backtrace::Backtrace::force_capture().to_string(),
                    ));
                }
                if std::env::var_os("VERIF_BT").is_some() {
                    eprintln!("FAULT at op {k} {kind:?}\n{}", std::backtrace::Backtrace::force_capture());
                }
                Err(sim_err(w.plan.interrupted))
            } else {
                let mut lim = w.plan.max_chunk;
                if kind == OpKind::Read && self.id == 0 && self.reads == 0 && w.plan.first_read_len > 0
                {
                    lim = w.plan.first_read_len | (1 << 30);
                } else if lim > 1 {
                    if let Some(r) = w.rng.as_mut() {
                        lim = 1 + r.below(lim as u64) as usize;
                    }
                }
                Ok(lim)
            }
        };
        if yield_now {
            crate::turnstile::yield_point(kind.name());
        }
        r
    }
}

impl Read for SimStream {
    fn read(&mut self, buf: &mut [u8]) -> io::Result<usize> {
        let lim = self.enter(OpKind::Read, buf.len() as u64)?;
        self.reads += 1;
        let len = self.data.len() as u64;
        if self.pos >= len || buf.is_empty() {
            return Ok(0);
        }
        let avail = (len - self.pos) as usize;
        let mut n = buf.len().min(avail);
        if lim & (1 << 30) != 0 {
            n = n.min(lim & !(1 << 30));
        } else if lim > 0 {
            n = n.min(lim);
        }
        let p = self.pos as usize;
        buf[..n].copy_from_slice(&self.data[p..p + n]);
        self.pos += n as u64;
        let mut w = self.world.lock().unwrap_or_else(|e| e.into_inner());
        w.bytes_read += n as u64;
        mix(&mut w.digest, n as u64);
        Ok(n)
    }
}

impl Write for SimStream {
    fn write(&mut self, buf: &[u8]) -> io::Result<usize> {
        let lim = self.enter(OpKind::Write, buf.len() as u64)?;
        if buf.is_empty() {
            return Ok(0);
        }
        let mut n = buf.len();
        if lim > 0 && lim & (1 << 30) == 0 {
            n = n.min(lim);
        }
        {
            let mut w = self.world.lock().unwrap_or_else(|e| e.into_inner());
            if let Some(cap) = w.plan.enospc_after {
                if w.bytes_written + n as u64 > cap {
                    let room = cap.saturating_sub(w.bytes_written) as usize;
                    if room == 0 {
                        if w.fired.is_none() {
                            let ph = w.phase.clone();
                            let k = w.seq - 1;
                            w.fired = Some((k, OpKind::Write, self.id, ph));
                            if w.capture_site {
                                w.site = Some(site_from_backtrace(
                                    &std::backtrace::Backtrace::force_capture().to_string(),
                                ));
                            }
                        }
                        return Err(io::Error::new(
                            io::ErrorKind::StorageFull,
                            "simulated ENOSPC",
                        ));
                    }
                    n = n.min(room);
                }
            }
            w.bytes_written += n as u64;
            mix(&mut w.digest, n as u64);
            if w.record {
                let t = w.bytes_written;
                w.write_marks.push(t);
            }
        }
        let p = self.pos as usize;
        if p > self.data.len() {
            self.data.resize(p, 0);
        }
        let overlap = (self.data.len() - p).min(n);
        self.data[p..p + overlap].copy_from_slice(&buf[..overlap]);
        self.data.extend_from_slice(&buf[overlap..n]);
        self.pos += n as u64;
        Ok(n)
    }

    fn flush(&mut self) -> io::Result<()> {
        self.enter(OpKind::Flush, 0)?;
        Ok(())
    }
}

impl Seek for SimStream {
    fn seek(&mut self, pos: SeekFrom) -> io::Result<u64> {
        let arg = match pos {
            SeekFrom::Start(n) => n,
            SeekFrom::End(n) => n as u64 ^ 0x1_0000_0000_0000,
            SeekFrom::Current(n) => n as u64 ^ 0x2_0000_0000_0000,
        };
        self.enter(OpKind::Seek, arg)?;
        let (base, off) = match pos {
            SeekFrom::Start(n) => {
                self.pos = n;
                return Ok(n);
            }
            SeekFrom::End(n) => (self.data.len() as u64, n),
            SeekFrom::Current(n) => (self.pos, n),
        };
        match base.checked_add_signed(off) {
            Some(n) => {
                self.pos = n;
                Ok(n)
            }
            None => Err(io::Error::new(
                io::ErrorKind::InvalidInput,
                "invalid seek to a negative or overflowing position",
            )),
        }
    }
}

/// Snapshot of what a world saw, for results / evidence.
#[derive(Clone, Debug, Default)]
pub struct WorldStats {
    pub ops: u64,
    pub digest: u64,
    pub bytes_read: u64,
    pub bytes_written: u64,
    pub fired: Option<(u64, OpKind, u8, String)>,
    pub sticky_hits: u64,
    pub ops_by_kind: [u64; 4],
}

pub fn stats(w: &WorldRef) -> WorldStats {
    let w = w.lock().unwrap_or_else(|e| e.into_inner());
    WorldStats {
        ops: w.seq,
        digest: w.digest,
        bytes_read: w.bytes_read,
        bytes_written: w.bytes_written,
        fired: w.fired.clone(),
        sticky_hits: w.sticky_hits,
        ops_by_kind: w.ops_by_kind,
    }
}

pub fn set_phase(w: &WorldRef, phase: &str) {
    let mut w = w.lock().unwrap_or_else(|e| e.into_inner());
    if w.phase != phase {
        w.phase = phase.to_string();
    }
}

/// Innermost frames of the real SDK in a backtrace: "a::b<c::d<e::f" (last two path segments
/// of up to three `c2pa::` frames, innermost first).  Names the call site that met the fault.
pub fn site_from_backtrace(bt: &str) -> String {
    let mut frames: Vec<String> = Vec::new();
    for line in bt.lines() {
        let l = line.trim();
        let Some((num, sym)) = l.split_once(": ") else { continue };
        if num.parse::<u32>().is_err() {
            continue;
        }
        let sym = sym.trim_start_matches('<');
        if !(sym.starts_with("c2pa::") || sym.starts_with("c2pa_c")) {
            continue;
        }
        // drop generic parameters and closure markers
        let mut clean = String::new();
        let mut depth = 0;
        for ch in sym.chars() {
            match ch {
                '<' => depth += 1,
                '>' => depth -= 1,
                _ if depth == 0 => clean.push(ch),
                _ => {}
            }
        }
        let clean = clean.replace("::{{closure}}", "").replace(" as ", "");
        let parts: Vec<&str> = clean.split("::").filter(|p| !p.is_empty()).collect();
        let n = parts.len();
        let short = if n >= 2 { format!("{}::{}", parts[n - 2], parts[n - 1]) } else { clean.clone() };
        if frames.last() != Some(&short) {
            frames.push(short);
        }
        if frames.len() == 3 {
            break;
        }
    }
    if frames.is_empty() {
        "unknown".into()
    } else {
        frames.join("<")
    }
}
