//! Independent per-format media extractors (share no code with /repo): the ordered list of
//! media units `(kind, bytes)` of an asset with everything that carries the C2PA manifest left
//! out, and with every stored absolute offset replaced by the bytes it addresses.

use crate::assets::Fmt;

pub type Units = Vec<(String, Vec<u8>)>;

fn be32(d: &[u8], p: usize) -> Option<usize> {
    d.get(p..p + 4).map(|b| u32::from_be_bytes([b[0], b[1], b[2], b[3]]) as usize)
}
fn le32(d: &[u8], p: usize) -> Option<usize> {
    d.get(p..p + 4).map(|b| u32::from_le_bytes([b[0], b[1], b[2], b[3]]) as usize)
}
fn le16(d: &[u8], p: usize) -> Option<usize> {
    d.get(p..p + 2).map(|b| u16::from_le_bytes([b[0], b[1]]) as usize)
}

pub fn extract(f: Fmt, d: &[u8]) -> Result<Units, String> {
    match f {
        Fmt::Jpeg => jpeg(d),
        Fmt::Png => png(d),
        Fmt::Gif => gif(d),
        Fmt::Wav | Fmt::Webp => riff(d),
        Fmt::Tiff => tiff(d),
        Fmt::Svg => svg(d),
        Fmt::Mp3 => mp3(d),
        Fmt::Flac => flac(d),
        Fmt::Jxl => jxl(d),
        Fmt::Mp4 => mp4(d),
    }
}

fn jpeg(d: &[u8]) -> Result<Units, String> {
    if d.len() < 4 || d[0] != 0xFF || d[1] != 0xD8 {
        return Err("no SOI".into());
    }
    let mut u = Units::new();
    let mut p = 2;
    loop {
        if p + 2 > d.len() {
            return Err("ran off the end".into());
        }
        if d[p] != 0xFF {
            return Err(format!("expected marker at {p}"));
        }
        let m = d[p + 1];
        if m == 0xD9 {
            u.push(("EOI".into(), vec![]));
            // trailing bytes are media too
            if p + 2 < d.len() {
                u.push(("trailing".into(), d[p + 2..].to_vec()));
            }
            return Ok(u);
        }
        if (0xD0..=0xD7).contains(&m) || m == 0x01 {
            u.push((format!("m{m:02X}"), vec![]));
            p += 2;
            continue;
        }
        let len = d.get(p + 2..p + 4).map(|b| u16::from_be_bytes([b[0], b[1]]) as usize).ok_or("short")?;
        if len < 2 || p + 2 + len > d.len() {
            return Err("bad segment length".into());
        }
        let payload = &d[p + 4..p + 2 + len];
        let is_c2pa = m == 0xEB && payload.len() >= 2 && &payload[0..2] == b"JP";
        if !is_c2pa {
            u.push((format!("m{m:02X}"), payload.to_vec()));
        }
        p += 2 + len;
        if m == 0xDA {
            // entropy-coded data up to the next real marker
            let s = p;
            while p + 1 < d.len() {
                if d[p] == 0xFF && d[p + 1] != 0x00 && !(0xD0..=0xD7).contains(&d[p + 1]) {
                    break;
                }
                p += 1;
            }
            u.push(("scan".into(), d[s..p].to_vec()));
        }
    }
}

fn png(d: &[u8]) -> Result<Units, String> {
    if d.len() < 8 || d[..8] != [0x89, b'P', b'N', b'G', 0x0D, 0x0A, 0x1A, 0x0A] {
        return Err("no signature".into());
    }
    let mut u = Units::new();
    let mut p = 8;
    while p < d.len() {
        let len = be32(d, p).ok_or("short")?;
        let typ = d.get(p + 4..p + 8).ok_or("short")?;
        let data = d.get(p + 8..p + 8 + len).ok_or("chunk past end")?;
        let crc = d.get(p + 8 + len..p + 12 + len).ok_or("no crc")?;
        let mut body = typ.to_vec();
        body.extend_from_slice(data);
        if crate::assets::crc32(&body).to_be_bytes() != crc {
            return Err(format!("bad crc in {}", String::from_utf8_lossy(typ)));
        }
        if typ != b"caBX" {
            u.push((String::from_utf8_lossy(typ).to_string(), data.to_vec()));
        }
        p += 12 + len;
        if typ == b"IEND" {
            if p < d.len() {
                u.push(("trailing".into(), d[p..].to_vec()));
            }
            break;
        }
    }
    Ok(u)
}

fn gif_subblocks(d: &[u8], mut p: usize) -> Result<(Vec<u8>, usize), String> {
    let mut data = Vec::new();
    loop {
        let n = *d.get(p).ok_or("sub-block past end")? as usize;
        p += 1;
        if n == 0 {
            return Ok((data, p));
        }
        data.extend_from_slice(d.get(p..p + n).ok_or("sub-block past end")?);
        p += n;
    }
}

fn gif(d: &[u8]) -> Result<Units, String> {
    if d.len() < 13 || (&d[..6] != b"GIF89a" && &d[..6] != b"GIF87a") {
        return Err("no header".into());
    }
    let mut u = Units::new();
    u.push(("header".into(), d[..13].to_vec()));
    let mut p = 13;
    if d[10] & 0x80 != 0 {
        let n = 3 * (1usize << ((d[10] & 7) + 1));
        u.push(("gct".into(), d.get(p..p + n).ok_or("gct")?.to_vec()));
        p += n;
    }
    loop {
        match *d.get(p).ok_or("no trailer")? {
            0x3B => {
                u.push(("trailer".into(), vec![]));
                if p + 1 < d.len() {
                    u.push(("trailing".into(), d[p + 1..].to_vec()));
                }
                return Ok(u);
            }
            0x21 => {
                let label = *d.get(p + 1).ok_or("ext")?;
                if label == 0xFF {
                    // application extension: 0x0B, 8 id, 3 auth, sub-blocks
                    let id = d.get(p + 3..p + 14).ok_or("app ext")?.to_vec();
                    let (data, np) = gif_subblocks(d, p + 14)?;
                    if &id[..8] != b"C2PA_GIF" {
                        let mut v = id;
                        v.extend(data);
                        u.push(("app".into(), v));
                    }
                    p = np;
                } else {
                    let (data, np) = gif_subblocks(d, p + 2)?;
                    u.push((format!("ext{label:02X}"), data));
                    p = np;
                }
            }
            0x2C => {
                let desc = d.get(p..p + 10).ok_or("img")?.to_vec();
                p += 10;
                let mut unit = desc.clone();
                if desc[9] & 0x80 != 0 {
                    let n = 3 * (1usize << ((desc[9] & 7) + 1));
                    unit.extend_from_slice(d.get(p..p + n).ok_or("lct")?);
                    p += n;
                }
                unit.push(*d.get(p).ok_or("lzw")?);
                let (data, np) = gif_subblocks(d, p + 1)?;
                unit.extend(data);
                u.push(("image".into(), unit));
                p = np;
            }
            b => return Err(format!("unknown block {b:02X} at {p}")),
        }
    }
}

fn riff(d: &[u8]) -> Result<Units, String> {
    if d.len() < 12 || &d[..4] != b"RIFF" {
        return Err("no RIFF".into());
    }
    let size = le32(d, 4).ok_or("short")?;
    if 8 + size > d.len() {
        return Err("RIFF size past end".into());
    }
    let mut u = Units::new();
    u.push(("form".into(), d[8..12].to_vec()));
    let mut p = 12;
    let end = 8 + size;
    while p + 8 <= end {
        let id = &d[p..p + 4];
        let len = le32(d, p + 4).ok_or("short")?;
        let data = d.get(p + 8..p + 8 + len).ok_or("chunk past end")?;
        if id != b"C2PA" {
            u.push((String::from_utf8_lossy(id).to_string(), data.to_vec()));
        }
        p += 8 + len + (len & 1);
    }
    if end < d.len() {
        u.push(("trailing".into(), d[end..].to_vec()));
    }
    Ok(u)
}

fn tiff(d: &[u8]) -> Result<Units, String> {
    if d.len() < 8 || (&d[..4] != b"II*\0" && &d[..4] != b"MM\0*") {
        return Err("not classic TIFF".into());
    }
    let be = d[0] == b'M';
    let le16 = |d: &[u8], p: usize| -> Option<usize> { if be { d.get(p..p + 2).map(|b| u16::from_be_bytes([b[0], b[1]]) as usize) } else { le16(d, p) } };
    let le32 = |d: &[u8], p: usize| -> Option<usize> { if be { d.get(p..p + 4).map(|b| u32::from_be_bytes([b[0], b[1], b[2], b[3]]) as usize) } else { le32(d, p) } };
    let mut u = Units::new();
    let mut ifd = le32(d, 4).ok_or("short")?;
    let tsize = |t: usize| match t {
        1 | 2 | 6 | 7 => 1,
        3 | 8 => 2,
        4 | 9 | 11 | 13 => 4,
        5 | 10 | 12 => 8,
        _ => 1,
    };
    let mut guard = 0;
    while ifd != 0 {
        guard += 1;
        if guard > 16 {
            return Err("ifd loop".into());
        }
        let n = le16(d, ifd).ok_or("ifd past end")?;
        let mut strip_offsets: Vec<usize> = vec![];
        let mut strip_counts: Vec<usize> = vec![];
        for i in 0..n {
            let e = ifd + 2 + i * 12;
            let tag = le16(d, e).ok_or("entry")?;
            let typ = le16(d, e + 2).ok_or("entry")?;
            let cnt = le32(d, e + 4).ok_or("entry")?;
            let bytes = cnt * tsize(typ);
            let val: Vec<u8> = if bytes <= 4 {
                d.get(e + 8..e + 8 + bytes).ok_or("entry")?.to_vec()
            } else {
                let off = le32(d, e + 8).ok_or("entry")?;
                d.get(off..off + bytes).ok_or(format!("tag {tag} data past end"))?.to_vec()
            };
            let nums = |v: &[u8]| -> Vec<usize> {
                if typ == 3 {
                    v.chunks(2).filter(|c| c.len() == 2).map(|c| if be { u16::from_be_bytes([c[0], c[1]]) } else { u16::from_le_bytes([c[0], c[1]]) } as usize).collect()
                } else {
                    v.chunks(4).filter(|c| c.len() == 4).map(|c| if be { u32::from_be_bytes([c[0], c[1], c[2], c[3]]) } else { u32::from_le_bytes([c[0], c[1], c[2], c[3]]) } as usize).collect()
                }
            };
            match tag {
                0xCD41 => {} // C2PA manifest store
                273 | 324 => strip_offsets = nums(&val),
                279 | 325 => {
                    strip_counts = nums(&val);
                    u.push((format!("tag{tag}"), val));
                }
                _ => u.push((format!("tag{tag}:{typ}"), val)),
            }
        }
        for (o, c) in strip_offsets.iter().zip(strip_counts.iter()) {
            u.push(("strip".into(), d.get(*o..*o + *c).ok_or("strip past end")?.to_vec()));
        }
        u.push(("ifd-end".into(), vec![]));
        ifd = le32(d, ifd + 2 + n * 12).ok_or("next ifd")?;
    }
    Ok(u)
}

fn svg(d: &[u8]) -> Result<Units, String> {
    // everything except a <metadata>…</metadata> element that contains a c2pa:manifest
    let s = String::from_utf8(d.to_vec()).map_err(|_| "not utf-8")?;
    let mut out = s.clone();
    if let Some(a) = s.find("<metadata") {
        if let Some(b) = s[a..].find("</metadata>") {
            let inner = &s[a..a + b + 11];
            if inner.contains("c2pa:manifest") {
                out = format!("{}{}", &s[..a], &s[a + b + 11..]);
            }
        }
    }
    // the namespace declaration and an emptied metadata wrapper are manifest carriers too
    let out = out
        .replace(" xmlns:c2pa=\"http://c2pa.org/manifest\"", "")
        .replace("<metadata></metadata>", "")
        .replace("<metadata/>", "");
    // whitespace between elements is not media
    let norm: String = out.split_whitespace().collect::<Vec<_>>().join(" ").replace("> <", "><");
    Ok(vec![("svg".into(), norm.into_bytes())])
}

fn id3_split(d: &[u8]) -> Result<(Units, usize), String> {
    // leading ID3v2 tag: frames other than the C2PA GEOB, and the offset where the tag ends
    let mut u = Units::new();
    if d.len() >= 10 && &d[..3] == b"ID3" {
        let size = ((d[6] as usize & 0x7f) << 21) | ((d[7] as usize & 0x7f) << 14) | ((d[8] as usize & 0x7f) << 7) | (d[9] as usize & 0x7f);
        let end = 10 + size;
        if end > d.len() {
            return Err("id3 past end".into());
        }
        let ver = d[3];
        let mut p = 10;
        while p + 10 <= end {
            let id = &d[p..p + 4];
            if id == [0, 0, 0, 0] {
                break;
            }
            let fs = if ver >= 4 {
                ((d[p + 4] as usize & 0x7f) << 21) | ((d[p + 5] as usize & 0x7f) << 14) | ((d[p + 6] as usize & 0x7f) << 7) | (d[p + 7] as usize & 0x7f)
            } else {
                be32(d, p + 4).ok_or("frame")?
            };
            let body = d.get(p + 10..p + 10 + fs).ok_or("frame past end")?;
            let is_c2pa = id == b"GEOB" && crate::jumbf::find_sub(body, b"c2pa").is_some();
            if !is_c2pa {
                u.push((String::from_utf8_lossy(id).to_string(), body.to_vec()));
            }
            p += 10 + fs;
        }
        Ok((u, end))
    } else {
        Ok((u, 0))
    }
}

fn mp3(d: &[u8]) -> Result<Units, String> {
    let (mut u, end) = id3_split(d)?;
    u.push(("audio".into(), d[end..].to_vec()));
    Ok(u)
}

fn flac(d: &[u8]) -> Result<Units, String> {
    let (mut u, end) = id3_split(d)?;
    if d.get(end..end + 4) != Some(b"fLaC") {
        return Err("no fLaC after id3".into());
    }
    u.push(("flac".into(), d[end..].to_vec()));
    Ok(u)
}

fn boxes(d: &[u8]) -> Result<Vec<([u8; 4], usize, usize, usize)>, String> {
    // (type, start, payload start, end)
    let mut out = Vec::new();
    let mut p = 0;
    while p + 8 <= d.len() {
        let sz = be32(d, p).ok_or("short")?;
        let typ = [d[p + 4], d[p + 5], d[p + 6], d[p + 7]];
        let (hdr, size) = if sz == 1 {
            (16, u64::from_be_bytes(d.get(p + 8..p + 16).ok_or("short")?.try_into().unwrap()) as usize)
        } else if sz == 0 {
            (8, d.len() - p)
        } else {
            (8, sz)
        };
        if size < hdr || p + size > d.len() {
            return Err(format!("box {} past end", String::from_utf8_lossy(&typ)));
        }
        out.push((typ, p, p + hdr, p + size));
        p += size;
    }
    if p != d.len() {
        return Err("trailing bytes after last box".into());
    }
    Ok(out)
}

fn jxl(d: &[u8]) -> Result<Units, String> {
    let mut u = Units::new();
    for (t, _s, ps, e) in boxes(d)? {
        if &t == b"jumb" {
            // c2pa store (label c2pa)
            if crate::jumbf::find_sub(&d[ps..e.min(ps + 64)], b"c2pa").is_some() {
                continue;
            }
        }
        u.push((String::from_utf8_lossy(&t).to_string(), d[ps..e].to_vec()));
    }
    Ok(u)
}

const C2PA_UUID: [u8; 16] = [0xd8, 0xfe, 0xc3, 0xd6, 0x1b, 0x0e, 0x48, 0x3c, 0x92, 0x97, 0x58, 0x28, 0x87, 0x7e, 0xc4, 0x81];

fn rd(d: &[u8], p: usize, w: usize) -> Option<u64> {
    let b = d.get(p..p + w)?;
    Some(b.iter().fold(0u64, |a, x| (a << 8) | *x as u64))
}

/// Absolute-file-offset fields below [start,end): (position, width, extra) where the address is
/// the field value plus `extra` (iloc: base + extent).  Second list: fields to blank only.
fn find_pointers(d: &[u8], start: usize, end: usize, ptrs: &mut Vec<(String, usize, usize, u64)>, blank: &mut Vec<(usize, usize)>) -> Result<(), String> {
    let mut p = start;
    while p + 8 <= end {
        let sz = be32(d, p).ok_or("short box")?;
        if sz < 8 || p + sz > end {
            return Err(format!("bad box size {sz} at {p}"));
        }
        let t: [u8; 4] = d[p + 4..p + 8].try_into().unwrap();
        let body = p + 8;
        let e = p + sz;
        match &t {
            b"moov" | b"trak" | b"mdia" | b"minf" | b"stbl" | b"moof" | b"traf" | b"mfra" => find_pointers(d, body, e, ptrs, blank)?,
            b"meta" => find_pointers(d, body + 4, e, ptrs, blank)?,
            b"stco" | b"co64" => {
                let w = if &t == b"stco" { 4 } else { 8 };
                let n = rd(d, body + 4, 4).ok_or("stco count")? as usize;
                for i in 0..n {
                    let at = body + 8 + i * w;
                    if at + w > e {
                        return Err("chunk offset table past its box".into());
                    }
                    ptrs.push((String::from_utf8_lossy(&t).to_string(), at, w, 0));
                }
            }
            b"saio" => {
                let version = d[body];
                let flags = rd(d, body + 1, 3).ok_or("saio")?;
                let mut q = body + 4;
                if flags & 1 == 1 {
                    q += 8;
                }
                let n = rd(d, q, 4).ok_or("saio count")? as usize;
                q += 4;
                let w = if version == 0 { 4 } else { 8 };
                for i in 0..n {
                    let at = q + i * w;
                    if at + w > e {
                        return Err("saio table past its box".into());
                    }
                    ptrs.push(("saio".into(), at, w, 0));
                }
            }
            b"tfhd" => {
                let flags = rd(d, body + 1, 3).ok_or("tfhd")?;
                if flags & 1 == 1 {
                    if body + 16 > e {
                        return Err("tfhd too short".into());
                    }
                    ptrs.push(("tfhd".into(), body + 8, 8, 0));
                }
            }
            b"tfra" => {
                let version = d[body];
                let info = rd(d, body + 8, 4).ok_or("tfra")? as usize;
                let n = rd(d, body + 12, 4).ok_or("tfra")? as usize;
                let mut q = body + 16;
                let w = if version == 1 { 8 } else { 4 };
                for _ in 0..n {
                    q += w; // time
                    if q + w > e {
                        return Err("tfra entries past their box".into());
                    }
                    ptrs.push(("tfra".into(), q, w, 0));
                    q += w;
                    q += ((info >> 4) & 3) + 1 + ((info >> 2) & 3) + 1 + (info & 3) + 1;
                }
            }
            b"iloc" => {
                let version = d[body];
                let b0 = *d.get(body + 4).ok_or("iloc")?;
                let b1 = *d.get(body + 5).ok_or("iloc")?;
                let (osz, lsz, bsz) = ((b0 >> 4) as usize, (b0 & 15) as usize, (b1 >> 4) as usize);
                let isz = if version == 1 || version == 2 { (b1 & 15) as usize } else { 0 };
                let mut q = body + 6;
                let cw = if version < 2 { 2 } else { 4 };
                let n = rd(d, q, cw).ok_or("iloc count")? as usize;
                q += cw;
                for _ in 0..n {
                    q += cw; // item id
                    let mut method = 0;
                    if version == 1 || version == 2 {
                        method = rd(d, q, 2).ok_or("iloc")? & 15;
                        q += 2;
                    }
                    q += 2; // data reference index
                    let base_at = q;
                    let base = if bsz > 0 { rd(d, q, bsz).ok_or("iloc base")? } else { 0 };
                    q += bsz;
                    let ec = rd(d, q, 2).ok_or("iloc extent count")? as usize;
                    q += 2;
                    for _ in 0..ec {
                        q += isz;
                        if q + osz + lsz > e {
                            return Err("iloc extents past their box".into());
                        }
                        if method == 0 {
                            if osz > 0 {
                                ptrs.push(("iloc".into(), q, osz, base));
                            } else if bsz > 0 {
                                ptrs.push(("iloc".into(), base_at, bsz, 0));
                            }
                        }
                        q += osz + lsz;
                    }
                    if method == 0 && bsz > 0 {
                        blank.push((base_at, bsz));
                    }
                }
            }
            _ => {}
        }
        p += sz;
    }
    Ok(())
}

fn mp4(d: &[u8]) -> Result<Units, String> {
    let mut u = Units::new();
    for (t, s, ps, e) in boxes(d)? {
        if &t == b"uuid" && d.get(ps..ps + 16) == Some(&C2PA_UUID[..]) {
            continue;
        }
        if &t == b"free" || &t == b"skip" {
            continue; // padding is not media
        }
        if matches!(&t, b"moov" | b"meta" | b"moof" | b"mfra") {
            // replace absolute file offsets by the bytes they address
            let mut ptrs = Vec::new();
            let mut blank = Vec::new();
            find_pointers(d, s, e, &mut ptrs, &mut blank)?;
            let mut m = d[s..e].to_vec();
            for (kind, at, w, extra) in ptrs {
                let off = (rd(d, at, w).ok_or("pointer")? + extra) as usize;
                let addressed = d.get(off..(off + 8).min(d.len())).ok_or(format!("{kind} offset {off} past end"))?.to_vec();
                u.push((format!("{kind}-addressed"), addressed));
                for b in &mut m[at - s..at - s + w] {
                    *b = 0;
                }
            }
            for (at, w) in blank {
                for b in &mut m[at - s..at - s + w] {
                    *b = 0;
                }
            }
            u.push((String::from_utf8_lossy(&t).to_string(), m));
            continue;
        }
        u.push((String::from_utf8_lossy(&t).to_string(), d[ps..e].to_vec()));
    }
    Ok(u)
}
