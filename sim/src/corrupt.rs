//! Stored-byte faults ("SimDisk"): what can happen to durable bytes between two operations.

use serde_json::Value;

#[derive(Clone, Debug, PartialEq)]
pub enum Fault {
    /// single-byte overwrite: pattern 0..4 = ^0x01, ^0x80, ^0xFF, =0x00
    Flip { pos: usize, pat: u8 },
    Truncate { len: usize },
    Insert { pos: usize, byte: u8 },
    Delete { pos: usize },
    Append { n: usize, seed: u8 },
    BlockDup { start: usize, len: usize },
    BlockDrop { start: usize, len: usize },
    BlockSwap { a: usize, b: usize, len: usize },
    /// overwrite `len` bytes at pos with 0xFF.. or 0x00..
    Smash { pos: usize, len: usize, val: u8 },
    /// a 16-bit field set to `val` (big- or little-endian)
    Put16 { pos: usize, val: u16, be: bool },
}

impl Fault {
    pub fn kind(&self) -> &'static str {
        match self {
            Fault::Flip { .. } => "flip",
            Fault::Truncate { .. } => "truncate",
            Fault::Insert { .. } => "insert",
            Fault::Delete { .. } => "delete",
            Fault::Append { .. } => "append",
            Fault::BlockDup { .. } => "block_dup",
            Fault::BlockDrop { .. } => "block_drop",
            Fault::BlockSwap { .. } => "block_swap",
            Fault::Smash { .. } => "smash",
            Fault::Put16 { .. } => "put16",
        }
    }

    pub fn describe(&self) -> String {
        format!("{self:?}")
    }

    /// Apply; None when the fault would not change anything.
    pub fn apply(&self, d: &[u8]) -> Option<Vec<u8>> {
        let mut v = d.to_vec();
        match *self {
            Fault::Flip { pos, pat } => {
                if pos >= v.len() {
                    return None;
                }
                let old = v[pos];
                v[pos] = match pat {
                    0 => old ^ 0x01,
                    1 => old ^ 0x80,
                    2 => old ^ 0xFF,
                    _ => 0,
                };
                if v[pos] == old {
                    return None;
                }
            }
            Fault::Truncate { len } => {
                if len >= v.len() {
                    return None;
                }
                v.truncate(len);
            }
            Fault::Insert { pos, byte } => {
                if pos > v.len() {
                    return None;
                }
                v.insert(pos, byte);
            }
            Fault::Delete { pos } => {
                if pos >= v.len() {
                    return None;
                }
                v.remove(pos);
            }
            Fault::Append { n, seed } => {
                for i in 0..n {
                    v.push(seed.wrapping_mul(31).wrapping_add((i as u8).wrapping_mul(7).wrapping_add(1)));
                }
            }
            Fault::BlockDup { start, len } => {
                if start + len > v.len() || len == 0 {
                    return None;
                }
                let blk = v[start..start + len].to_vec();
                let tail = v.split_off(start + len);
                v.extend(blk);
                v.extend(tail);
            }
            Fault::BlockDrop { start, len } => {
                if start + len > v.len() || len == 0 {
                    return None;
                }
                v.drain(start..start + len);
            }
            Fault::BlockSwap { a, b, len } => {
                if a + len > b || b + len > v.len() || len == 0 {
                    return None;
                }
                for i in 0..len {
                    v.swap(a + i, b + i);
                }
                if v == d {
                    return None;
                }
            }
            Fault::Smash { pos, len, val } => {
                if pos + len > v.len() || len == 0 {
                    return None;
                }
                for x in &mut v[pos..pos + len] {
                    *x = val;
                }
                if v == d {
                    return None;
                }
            }
            Fault::Put16 { pos, val, be } => {
                if pos + 2 > v.len() {
                    return None;
                }
                let b = if be { val.to_be_bytes() } else { val.to_le_bytes() };
                v[pos..pos + 2].copy_from_slice(&b);
                if v == d {
                    return None;
                }
            }
        }
        Some(v)
    }

    /// Does the fault change the length?
    pub fn changes_len(&self) -> bool {
        !matches!(self, Fault::Flip { .. } | Fault::BlockSwap { .. } | Fault::Smash { .. } | Fault::Put16 { .. })
    }

    /// Positions (in the original) the fault touches, for same-length faults; for length-changing
    /// faults the first affected original position (everything after it moves).
    pub fn first_pos(&self) -> usize {
        match *self {
            Fault::Flip { pos, .. } => pos,
            Fault::Truncate { len } => len,
            Fault::Insert { pos, .. } => pos,
            Fault::Delete { pos } => pos,
            Fault::Append { .. } => usize::MAX,
            Fault::BlockDup { start, len } => start + len,
            Fault::BlockDrop { start, .. } => start,
            Fault::BlockSwap { a, .. } => a,
            Fault::Smash { pos, .. } => pos,
            Fault::Put16 { pos, .. } => pos,
        }
    }
}

/// The complete single-fault list for a tiny asset of `len` bytes (deterministic order).
pub fn enumerate(len: usize) -> Vec<Fault> {
    let mut v = Vec::new();
    for pos in 0..len {
        for pat in 0..4u8 {
            v.push(Fault::Flip { pos, pat });
        }
    }
    for l in 0..len {
        v.push(Fault::Truncate { len: l });
    }
    for pos in 0..=len {
        v.push(Fault::Insert { pos, byte: if pos % 2 == 0 { 0x00 } else { 0xA5 } });
    }
    for pos in 0..len {
        v.push(Fault::Delete { pos });
    }
    for n in [1usize, 2, 8, 64] {
        v.push(Fault::Append { n, seed: n as u8 });
    }
    for bl in [64usize, 512] {
        let nb = len / bl;
        for i in 0..nb {
            v.push(Fault::BlockDup { start: i * bl, len: bl });
            v.push(Fault::BlockDrop { start: i * bl, len: bl });
            if i + 1 < nb {
                v.push(Fault::BlockSwap { a: i * bl, b: (i + 1) * bl, len: bl });
            }
        }
    }
    v
}

/// Half-open byte ranges.
pub type Ranges = Vec<(usize, usize)>;

pub fn in_ranges(r: &Ranges, pos: usize) -> bool {
    r.iter().any(|(s, e)| pos >= *s && pos < *e)
}

/// Top-level BMFF boxes: (type, start, end, uuid-at-offset-8 if type == uuid)
pub fn bmff_top_level(d: &[u8]) -> Vec<([u8; 4], usize, usize)> {
    let mut out = Vec::new();
    let mut p = 0usize;
    while p + 8 <= d.len() {
        let sz = u32::from_be_bytes([d[p], d[p + 1], d[p + 2], d[p + 3]]) as usize;
        let typ = [d[p + 4], d[p + 5], d[p + 6], d[p + 7]];
        let size = if sz == 1 {
            if p + 16 > d.len() {
                break;
            }
            u64::from_be_bytes(d[p + 8..p + 16].try_into().unwrap()) as usize
        } else if sz == 0 {
            d.len() - p
        } else {
            sz
        };
        if size < 8 || p + size > d.len() {
            break;
        }
        out.push((typ, p, p + size));
        p += size;
    }
    out
}

/// Declared exclusions of the active manifest's hard binding, evaluated on the ORIGINAL bytes.
/// `detailed` is Reader::detailed_json(); `box_map` the SDK's box map of the original (names,
/// start, len) used only to place the box-hash `C2PA`/excluded entries.
pub fn declared_exclusions(
    detailed: &Value,
    original: &[u8],
    box_map: Option<&[(Vec<String>, u64, u64, Option<bool>)]>,
) -> Option<(String, Ranges)> {
    let active = detailed.get("active_manifest")?.as_str()?;
    declared_exclusions_of(detailed, active, original, box_map)
}

/// Same, for the manifest with label `manifest`.
pub fn declared_exclusions_of(
    detailed: &Value,
    manifest: &str,
    original: &[u8],
    box_map: Option<&[(Vec<String>, u64, u64, Option<bool>)]>,
) -> Option<(String, Ranges)> {
    let store = detailed.get("manifests")?.get(manifest)?.get("assertion_store")?.as_object()?;
    for (label, a) in store {
        if label.starts_with("c2pa.hash.data") {
            let mut r = Ranges::new();
            if let Some(ex) = a.get("exclusions").and_then(|e| e.as_array()) {
                for e in ex {
                    let s = e.get("start")?.as_u64()? as usize;
                    let l = e.get("length")?.as_u64()? as usize;
                    r.push((s, s + l));
                }
            }
            return Some(("data".into(), r));
        }
        if label.starts_with("c2pa.hash.boxes") {
            let mut r = Ranges::new();
            let bm = box_map?;
            let boxes = a.get("boxes")?.as_array()?;
            for b in boxes {
                let names: Vec<String> = b
                    .get("names")?
                    .as_array()?
                    .iter()
                    .filter_map(|n| n.as_str().map(|s| s.to_string()))
                    .collect();
                let excluded = b.get("excluded").and_then(|x| x.as_bool()).unwrap_or(false);
                if excluded || names.first().map(|n| n == "C2PA").unwrap_or(false) {
                    for (n, s, l, _) in bm {
                        if *n == names {
                            r.push((*s as usize, (*s + *l) as usize));
                        }
                    }
                }
            }
            return Some(("box".into(), r));
        }
        if label.starts_with("c2pa.hash.bmff") {
            let mut r = Ranges::new();
            let ex = a.get("exclusions")?.as_array()?;
            let top = bmff_top_level(original);
            // with Merkle maps the assertion declares the mdat payload covered leaf by leaf: its
            // /mdat exclusion only takes it out of the flat hash
            let has_merkle = a.get("merkle").and_then(|m| m.as_array()).map(|m| !m.is_empty()).unwrap_or(false);
            for e in ex {
                let xp = e.get("xpath")?.as_str()?;
                let name = xp.trim_start_matches('/');
                if has_merkle && name == "mdat" {
                    continue;
                }
                if name.contains('/') || name.len() != 4 {
                    continue; // nested paths: not present in our workloads
                }
                for (typ, s, en) in &top {
                    if typ != name.as_bytes() {
                        continue;
                    }
                    // data constraints: every (offset, value) must match
                    let mut ok = true;
                    if let Some(data) = e.get("data").and_then(|d| d.as_array()) {
                        for d in data {
                            let off = d.get("offset").and_then(|o| o.as_u64()).unwrap_or(0) as usize;
                            let val = d.get("value").and_then(|v| v.as_str()).unwrap_or("");
                            use base64::Engine;
                            let bytes = base64::engine::general_purpose::STANDARD
                                .decode(val)
                                .unwrap_or_default();
                            if s + off + bytes.len() > *en || original[s + off..s + off + bytes.len()] != bytes[..] {
                                ok = false;
                            }
                        }
                    }
                    if ok {
                        match e.get("subset").and_then(|x| x.as_array()) {
                            Some(subs) if !subs.is_empty() => {
                                for sb in subs {
                                    let off = sb.get("offset").and_then(|o| o.as_u64()).unwrap_or(0) as usize;
                                    let len = sb.get("length").and_then(|o| o.as_u64()).unwrap_or(0) as usize;
                                    let a0 = (*s + off).min(*en);
                                    let a1 = if len == 0 { *en } else { (a0 + len).min(*en) };
                                    r.push((a0, a1));
                                }
                            }
                            _ => r.push((*s, *en)),
                        }
                    }
                }
            }
            return Some(("bmff".into(), r));
        }
    }
    None
}
