//! A signer gone wrong: takes a really-signed manifest store, edits an assertion of its active
//! manifest, repairs the assertion's digest in the claim and signs the claim again with the same
//! credentials (hook H9, accessor over the SDK's own cose_sign).  The result is a store whose
//! signature and assertion hashes are all genuine, carrying content the Builder refuses to write.

use sha2::{Digest, Sha256};

use crate::jumbf::{self, JBox};

pub struct Layout {
    /// (label, start, end) of the assertion superboxes of the active (last) manifest
    pub assertions: Vec<(String, usize, usize)>,
    /// content of the claim's cbor box
    pub claim: (usize, usize),
    /// content of the signature's cbor box
    pub signature: (usize, usize),
    pub claim_version: usize,
}

fn content_of(b: &JBox) -> Option<(usize, usize)> {
    // first content box after the description box
    let c = b.children.get(1)?;
    Some((c.start + 8, c.end))
}

pub fn layout(store: &[u8]) -> Option<Layout> {
    let top = jumbf::parse(store);
    let m = top.first()?.children.iter().filter(|c| &c.typ == b"jumb").last()?;
    let mut assertions = Vec::new();
    let mut claim = None;
    let mut signature = None;
    let mut claim_version = 2;
    for c in &m.children {
        match c.label.as_deref() {
            Some("c2pa.assertions") => {
                for a in &c.children {
                    if &a.typ == b"jumb" {
                        assertions.push((a.label.clone().unwrap_or_default(), a.start, a.end));
                    }
                }
            }
            Some(l) if l.starts_with("c2pa.claim") => {
                claim = content_of(c);
                claim_version = if l == "c2pa.claim" { 1 } else { 2 };
            }
            Some("c2pa.signature") => signature = content_of(c),
            _ => {}
        }
    }
    Some(Layout { assertions, claim: claim?, signature: signature?, claim_version })
}

/// digest the claim records for an assertion superbox: SHA-256 over its payload (description box
/// and content boxes, without the superbox header)
fn assertion_digest(store: &[u8], start: usize, end: usize) -> Vec<u8> {
    Sha256::digest(&store[start + 8..end]).to_vec()
}

/// Replace `from` by `to` inside the assertion labelled `label` (first occurrence inside its
/// box; a length change fixes up every enclosing box size), repair the claim, sign again.
/// None when the store does not have the expected shape (counted by the caller).
pub fn edit_assertion_and_resign(store: &[u8], label: &str, from: &[u8], to: &[u8], signer: &dyn c2pa::Signer) -> Option<Vec<u8>> {
    let l = layout(store)?;
    let (_, s, e) = l.assertions.iter().find(|a| a.0 == label)?.clone();
    let old_digest = assertion_digest(store, s, e);
    // the claim must know this digest, else our idea of the hashing rule is wrong
    jumbf::find_sub(&store[l.claim.0..l.claim.1], &old_digest)?;
    let at = s + jumbf::find_sub(&store[s..e], from)?;
    let mut out;
    if from.len() == to.len() {
        out = store.to_vec();
        out[at..at + to.len()].copy_from_slice(to);
    } else {
        // the innermost content box holding `at`
        let top = jumbf::parse(store);
        fn innermost(bs: &[JBox], at: usize) -> Option<(usize, usize, bool)> {
            for b in bs {
                if b.start <= at && at < b.end {
                    if let Some(x) = innermost(&b.children, at) {
                        return Some(x);
                    }
                    return Some((b.start, b.end, &b.typ == b"jumb"));
                }
            }
            None
        }
        let (bs, be, is_super) = innermost(&top, at)?;
        if is_super {
            return None;
        }
        out = jumbf::splice(store, at, from.len(), to, (bs, be))?;
        let new_size = (be - bs + to.len()).checked_sub(from.len())?;
        out[bs..bs + 4].copy_from_slice(&(new_size as u32).to_be_bytes());
    }
    resign(&out, label, &old_digest, signer)
}

/// Rename assertion `label` to `new_label` (same length) in its description box and in the
/// claim's reference, repair the digest, sign again.
pub fn relabel_and_resign(store: &[u8], label: &str, new_label: &str, signer: &dyn c2pa::Signer) -> Option<Vec<u8>> {
    if label.len() != new_label.len() {
        return None;
    }
    let l = layout(store)?;
    let (_, s, e) = l.assertions.iter().find(|a| a.0 == label)?.clone();
    let old_digest = assertion_digest(store, s, e);
    jumbf::find_sub(&store[l.claim.0..l.claim.1], &old_digest)?;
    let mut out = store.to_vec();
    // description box label
    let at = s + jumbf::find_sub(&store[s..e], label.as_bytes())?;
    out[at..at + label.len()].copy_from_slice(new_label.as_bytes());
    // claim references (url ends with /<label>)
    let needle = format!("c2pa.assertions/{label}");
    let repl = format!("c2pa.assertions/{new_label}");
    let mut p = l.claim.0;
    while let Some(q) = jumbf::find_sub(&out[p..l.claim.1], needle.as_bytes()) {
        out[p + q..p + q + repl.len()].copy_from_slice(repl.as_bytes());
        p += q + repl.len();
    }
    resign(&out, new_label, &old_digest, signer)
}

fn resign(edited: &[u8], label: &str, old_digest: &[u8], signer: &dyn c2pa::Signer) -> Option<Vec<u8>> {
    let l = layout(edited)?;
    let (_, s, e) = l.assertions.iter().find(|a| a.0 == label)?.clone();
    let new_digest = assertion_digest(edited, s, e);
    let mut out = edited.to_vec();
    let c = l.claim;
    let mut p = c.0;
    let mut n = 0;
    while let Some(q) = jumbf::find_sub(&out[p..c.1], old_digest) {
        out[p + q..p + q + new_digest.len()].copy_from_slice(&new_digest);
        p += q + new_digest.len();
        n += 1;
    }
    if n == 0 {
        return None;
    }
    let sig = c2pa::verif::cose_sign(signer, &out[c.0..c.1], l.signature.1 - l.signature.0, l.claim_version).ok()?;
    if sig.len() != l.signature.1 - l.signature.0 {
        return None;
    }
    out[l.signature.0..l.signature.1].copy_from_slice(&sig);
    Some(out)
}

/// position after the CBOR data item starting at `p` (definite lengths only)
pub fn cbor_skip(d: &[u8], p: usize) -> Option<usize> {
    let b = *d.get(p)?;
    let (major, info) = (b >> 5, b & 0x1f);
    let (val, mut q): (u64, usize) = match info {
        0..=23 => (info as u64, p + 1),
        24 => (*d.get(p + 1)? as u64, p + 2),
        25 => (u16::from_be_bytes(d.get(p + 1..p + 3)?.try_into().ok()?) as u64, p + 3),
        26 => (u32::from_be_bytes(d.get(p + 1..p + 5)?.try_into().ok()?) as u64, p + 5),
        27 => (u64::from_be_bytes(d.get(p + 1..p + 9)?.try_into().ok()?), p + 9),
        _ => return None,
    };
    match major {
        0 | 1 | 7 => Some(q),
        2 | 3 => {
            let e = q.checked_add(val as usize)?;
            if e > d.len() {
                None
            } else {
                Some(e)
            }
        }
        4 => {
            for _ in 0..val {
                q = cbor_skip(d, q)?;
            }
            Some(q)
        }
        5 => {
            for _ in 0..val * 2 {
                q = cbor_skip(d, q)?;
            }
            Some(q)
        }
        6 => cbor_skip(d, q),
        _ => None,
    }
}

/// The store with (1) the original claim attached as the payload of the COSE_Sign1 (which the SDK
/// writes detached, as nil) and (2) `from` replaced by `to` (same length) inside the claim box.
/// Signature and headers are untouched: a validator that checks the signature over the attached
/// payload instead of over the claim box would accept the edited claim.
pub fn attach_payload_and_edit_claim(store: &[u8], from: &[u8], to: &[u8]) -> Option<Vec<u8>> {
    if from.len() != to.len() {
        return None;
    }
    let l = layout(store)?;
    let claim = store[l.claim.0..l.claim.1].to_vec();
    let sig = &store[l.signature.0..l.signature.1];
    // COSE_Sign1: [tag 18] array(4) protected unprotected payload signature
    let mut p = 0usize;
    if *sig.first()? == 0xD2 {
        p = 1;
    }
    if *sig.get(p)? != 0x84 {
        return None;
    }
    p += 1;
    p = cbor_skip(sig, p)?;
    p = cbor_skip(sig, p)?;
    if *sig.get(p)? != 0xF6 {
        return None;
    }
    let mut bstr = if claim.len() < 24 {
        vec![0x40 | claim.len() as u8]
    } else if claim.len() < 256 {
        vec![0x58, claim.len() as u8]
    } else if claim.len() < 65536 {
        vec![0x59, (claim.len() >> 8) as u8, claim.len() as u8]
    } else {
        return None;
    };
    bstr.extend_from_slice(&claim);
    // the cbor content box that holds the signature: [size][type] precede its content
    let box_start = l.signature.0 - 8;
    let box_end = l.signature.1;
    let at = l.signature.0 + p;
    let mut out = jumbf::splice(store, at, 1, &bstr, (box_start, box_end))?;
    let new_size = box_end - box_start + bstr.len() - 1;
    out[box_start..box_start + 4].copy_from_slice(&(new_size as u32).to_be_bytes());
    // the claim box comes before the signature box, so its position is unchanged
    let c = l.claim;
    let q = c.0 + jumbf::find_sub(&out[c.0..c.1], from)?;
    out[q..q + to.len()].copy_from_slice(to);
    Some(out)
}
