//! Process harness: seeded runs sharded over worker processes, crash = observation,
//! aggregation into evidence, replay files, known findings.

use std::{
    collections::{BTreeMap, HashSet},
    io::{BufRead, BufReader, Write},
    process::{Command, Stdio},
    sync::mpsc,
    time::{Duration, Instant},
};

use serde_json::{json, Value};

use crate::rng::Rng;

#[derive(Clone, Copy, Debug, PartialEq, Eq)]
pub enum Tier {
    Quick,
    Thorough,
}

impl Tier {
    pub fn name(self) -> &'static str {
        match self {
            Tier::Quick => "quick",
            Tier::Thorough => "thorough",
        }
    }
    pub fn parse(s: &str) -> Tier {
        if s == "thorough" {
            Tier::Thorough
        } else {
            Tier::Quick
        }
    }
}

#[derive(Clone, Debug)]
pub struct Violation {
    /// names the specific call site / input shape; known findings are matched on it
    pub fingerprint: String,
    /// which oracle clause
    pub clause: String,
    pub detail: Value,
}

/// Input of one run.
pub struct RunCtx {
    pub prop: &'static str,
    pub tier: Tier,
    pub seed: u64,
    pub idx: u64,
    pub rng: Rng,
    /// replay: only evaluate this sub-index of the scenario
    pub only_sub: Option<u64>,
    /// replay / minimisation: keep-mask over the generated operation list
    pub mask: Option<Vec<bool>>,
    /// replay: artefacts that came from outside the PRNG (signed bytes, tokens)
    pub artefacts_in: BTreeMap<String, Vec<u8>>,
    /// recorded by the run for the replay file
    pub artefacts_out: BTreeMap<String, Vec<u8>>,
    /// replay: recorded schedule decisions
    pub schedule_in: Option<Vec<u32>>,
    /// trace mode: print a marker before every evaluation (crash attribution)
    pub trace: bool,
}

impl RunCtx {
    /// An artefact whose bytes are not a function of the seed (OS randomness in signing).
    /// In replay the stored bytes are used; otherwise `make` runs and the result is recorded.
    pub fn artefact(&mut self, name: &str, make: impl FnOnce() -> Vec<u8>) -> Vec<u8> {
        if let Some(b) = self.artefacts_in.get(name) {
            return b.clone();
        }
        let b = make();
        self.artefacts_out.insert(name.to_string(), b.clone());
        if self.trace {
            use base64::Engine;
            println!("A {} {}", name, base64::engine::general_purpose::STANDARD.encode(&b));
            let _ = std::io::stdout().flush();
        }
        b
    }

    pub fn want_sub(&self, sub: u64) -> bool {
        self.only_sub.map(|s| s == sub).unwrap_or(true)
    }

    pub fn mark(&self, sub: u64) {
        if self.trace {
            println!("T {} {}", self.idx, sub);
            let _ = std::io::stdout().flush();
        }
    }
}

/// Output of one run (one scenario; may contain many evaluations).
#[derive(Default)]
pub struct RunOut {
    pub evals: u64,
    /// distinctness keys of the non-trivial evaluations
    pub keys: Vec<u64>,
    pub faults: BTreeMap<String, u64>,
    pub probes: BTreeMap<String, u64>,
    pub steps: u64,
    pub sim_time_s: u64,
    pub interleavings: Vec<u64>,
    pub digest: u64,
    pub sample: Option<Value>,
    /// (sub index, violation)
    pub violations: Vec<(u64, Violation)>,
    /// harness problem (control run not as expected etc.) -> exit 2
    pub harness_error: Option<String>,
    /// number of generated operations (for mask minimisation)
    pub n_ops: usize,
    pub schedule: Option<Vec<u32>>,
}

impl RunOut {
    pub fn fault(&mut self, kind: &str) {
        *self.faults.entry(kind.to_string()).or_insert(0) += 1;
    }
    pub fn probe(&mut self, name: &str) {
        *self.probes.entry(name.to_string()).or_insert(0) += 1;
    }
    pub fn probe_n(&mut self, name: &str, n: u64) {
        *self.probes.entry(name.to_string()).or_insert(0) += n;
    }
    pub fn violate(&mut self, sub: u64, fingerprint: &str, clause: &str, detail: Value) {
        // keep at most a handful per fingerprint per run
        if self
            .violations
            .iter()
            .filter(|(_, v)| v.fingerprint == fingerprint)
            .count()
            < 3
        {
            self.violations.push((
                sub,
                Violation {
                    fingerprint: fingerprint.to_string(),
                    clause: clause.to_string(),
                    detail,
                },
            ));
        }
    }
}

pub struct Meta {
    pub id: &'static str,
    pub level: &'static str,
    pub rule: &'static str,
    pub assumptions: &'static [&'static str],
    pub real: &'static [&'static str],
    pub stubbed: &'static [&'static str],
    /// property a crash / hang / allocation blow-up in a run is reported under
    pub crash_prop: &'static str,
}

pub trait Property: Sync {
    fn meta(&self) -> Meta;
    /// number of run indices for the tier
    fn runs(&self, tier: Tier) -> u64;
    /// true if completing all runs of the tier enumerates the stated finite space
    fn exhaustive(&self, _tier: Tier) -> bool {
        false
    }
    fn run(&self, ctx: &mut RunCtx) -> RunOut;
    /// properties whose runs are operation histories support mask minimisation
    fn supports_mask(&self) -> bool {
        false
    }
    /// properties that must run single-threaded per process and forked (ffi) override this
    fn workers(&self) -> usize {
        16
    }
}

fn out_to_json(idx: u64, o: &RunOut, art: &BTreeMap<String, Vec<u8>>) -> Value {
    use base64::Engine;
    let b64 = base64::engine::general_purpose::STANDARD;
    let keys: String = o.keys.iter().map(|k| format!("{k:016x}")).collect();
    let inter: String = o.interleavings.iter().map(|k| format!("{k:016x}")).collect();
    let has_v = !o.violations.is_empty();
    json!({
        "idx": idx, "evals": o.evals, "keys": keys, "faults": o.faults, "probes": o.probes,
        "steps": o.steps, "sim_time_s": o.sim_time_s, "inter": inter, "digest": format!("{:016x}", o.digest),
        "sample": o.sample, "n_ops": o.n_ops, "harness_error": o.harness_error,
        "schedule": if has_v { json!(o.schedule) } else { Value::Null },
        "violations": o.violations.iter().map(|(s, v)| json!({"sub": s, "fingerprint": v.fingerprint, "clause": v.clause, "detail": v.detail})).collect::<Vec<_>>(),
        "artefacts": if has_v { art.iter().map(|(k, v)| (k.clone(), Value::String(b64.encode(v)))).collect::<serde_json::Map<_, _>>().into() } else { Value::Null },
    })
}

fn new_ctx(p: &dyn Property, tier: Tier, seed: u64, idx: u64) -> RunCtx {
    let id = p.meta().id;
    // every run starts from the same SDK-side randomness (uuids, salts): hook H8
    c2pa::verif::set_random_seed(Some(crate::rng::run_seed(seed ^ 0x5eed, id, tier.name(), idx)));
    RunCtx {
        prop: id,
        tier,
        seed,
        idx,
        rng: Rng::new(crate::rng::run_seed(seed, id, tier.name(), idx)),
        only_sub: None,
        mask: None,
        artefacts_in: BTreeMap::new(),
        artefacts_out: BTreeMap::new(),
        schedule_in: None,
        trace: false,
    }
}

/// Shrink a failing operation history by delta debugging over the keep-mask (<= 120 re-runs).
fn minimise(p: &dyn Property, tier: Tier, seed: u64, idx: u64, out: &RunOut) -> Option<(Vec<bool>, RunOut, BTreeMap<String, Vec<u8>>)> {
    if !p.supports_mask() || out.n_ops == 0 || out.violations.is_empty() {
        return None;
    }
    let fp = out.violations[0].1.fingerprint.clone();
    let n = out.n_ops;
    let mut mask = vec![true; n];
    let mut budget = 120;
    let mut best: Option<(RunOut, BTreeMap<String, Vec<u8>>)> = None;
    let try_mask = |m: &Vec<bool>| -> Option<(RunOut, BTreeMap<String, Vec<u8>>)> {
        let mut c = new_ctx(p, tier, seed, idx);
        c.mask = Some(m.clone());
        let o = std::panic::catch_unwind(std::panic::AssertUnwindSafe(|| p.run(&mut c))).ok()?;
        if o.violations.iter().any(|(_, v)| v.fingerprint == fp) {
            Some((o, c.artefacts_out))
        } else {
            None
        }
    };
    let mut chunk = n.div_ceil(2);
    while chunk >= 1 && budget > 0 {
        let mut i = 0;
        let mut progressed = false;
        while i < n && budget > 0 {
            let mut m = mask.clone();
            let mut any = false;
            for j in i..(i + chunk).min(n) {
                if m[j] {
                    m[j] = false;
                    any = true;
                }
            }
            if any {
                budget -= 1;
                if let Some(r) = try_mask(&m) {
                    mask = m;
                    best = Some(r);
                    progressed = true;
                }
            }
            i += chunk;
        }
        if chunk == 1 && !progressed {
            break;
        }
        if chunk > 1 {
            chunk = chunk.div_ceil(2);
        } else if !progressed {
            break;
        }
    }
    best.map(|(o, a)| (mask, o, a))
}

/// Worker: execute run indices from..to step `step`, one JSON line per run.
pub fn worker(p: &dyn Property, tier: Tier, seed: u64, from: u64, to: u64, step: u64, deadline_s: u64, trace: bool) {
    let start = Instant::now();
    let stdout = std::io::stdout();
    let mut i = from;
    while i < to {
        if start.elapsed().as_secs() >= deadline_s {
            println!("D {i}");
            break;
        }
        {
            let mut h = stdout.lock();
            let _ = writeln!(h, "S {i}");
            let _ = h.flush();
        }
        let mut ctx = new_ctx(p, tier, seed, i);
        ctx.trace = trace;
        let res = std::panic::catch_unwind(std::panic::AssertUnwindSafe(|| p.run(&mut ctx)));
        let (mut out, mut art) = match res {
            Ok(o) => (o, std::mem::take(&mut ctx.artefacts_out)),
            Err(e) => {
                let msg = e
                    .downcast_ref::<String>()
                    .cloned()
                    .or_else(|| e.downcast_ref::<&str>().map(|s| s.to_string()))
                    .unwrap_or_default();
                let mut o = RunOut::default();
                o.evals = 1;
                let lp = crate::sdk::LAST_PANIC.lock().map(|g| g.clone()).unwrap_or_default();
                let loc = lp.split('|').next().unwrap_or("?").to_string();
                o.violate(0, &format!("panic:{}", loc), "G1 no panic", json!({ "panic": msg, "at": lp }));
                (o, BTreeMap::new())
            }
        };
        let mut mask_json = Value::Null;
        if !out.violations.is_empty() {
            if let Some((mask, o2, a2)) = minimise(p, tier, seed, i, &out) {
                mask_json = json!(mask);
                let kept = mask.iter().filter(|b| **b).count();
                let mut o2 = o2;
                o2.evals = out.evals;
                o2.keys = std::mem::take(&mut out.keys);
                for (_, v) in o2.violations.iter_mut() {
                    if let Value::Object(m) = &mut v.detail {
                        m.insert("minimised_ops".into(), json!(format!("{} of {}", kept, mask.len())));
                    }
                }
                out = o2;
                art = a2;
            }
        }
        let mut j = out_to_json(i, &out, &art);
        if let Value::Object(m) = &mut j {
            m.insert("mask".into(), mask_json);
        }
        {
            let mut h = stdout.lock();
            let _ = writeln!(h, "R {}", j);
            let _ = h.flush();
        }
        i += step;
    }
    println!("F");
}

pub struct Agg {
    pub evals: u64,
    pub keys: HashSet<u64>,
    pub faults: BTreeMap<String, u64>,
    pub probes: BTreeMap<String, u64>,
    pub steps: u64,
    pub sim_time_s: u64,
    pub inter: HashSet<u64>,
    pub digest: u64,
    pub samples: Vec<Value>,
    pub runs_done: u64,
    pub violations: Vec<Value>,
    pub harness_errors: Vec<String>,
    pub truncated: bool,
    pub crashes: u64,
}

/// most distinct evaluation keys the parent keeps (32 M keys, about half a gigabyte)
const KEY_CAP: usize = 32_000_000;

fn parse_keys(s: &str, into: &mut HashSet<u64>) {
    let b = s.as_bytes();
    let mut i = 0;
    while i + 16 <= b.len() {
        if let Ok(k) = u64::from_str_radix(&s[i..i + 16], 16) {
            // the distinct-key set is capped (thorough tiers of the enumerating checks produce
            // hundreds of millions of keys): beyond the cap the reported count is a lower bound
            if into.len() < KEY_CAP {
                into.insert(k);
            }
        }
        i += 16;
    }
}

enum Msg {
    Line(usize, String),
    Eof(usize, Option<i32>, Option<i32>),
}

fn spawn_worker(
    exe: &std::path::Path,
    id: &str,
    tier: Tier,
    seed: u64,
    from: u64,
    to: u64,
    step: u64,
    deadline: u64,
    w: usize,
    tx: mpsc::Sender<Msg>,
) -> std::process::Child {
    spawn_worker2(exe, id, tier, seed, from, to, step, deadline, w, tx, false)
}

#[allow(clippy::too_many_arguments)]
fn spawn_worker2(
    exe: &std::path::Path,
    id: &str,
    tier: Tier,
    seed: u64,
    from: u64,
    to: u64,
    step: u64,
    deadline: u64,
    w: usize,
    tx: mpsc::Sender<Msg>,
    trace: bool,
) -> std::process::Child {
    let mut child = Command::new(exe)
        .args(if trace { vec!["--trace"] } else { vec![] })
        .args([
            "worker",
            id,
            "--tier",
            tier.name(),
            "--seed",
            &seed.to_string(),
            "--from",
            &from.to_string(),
            "--to",
            &to.to_string(),
            "--step",
            &step.to_string(),
            "--deadline",
            &deadline.to_string(),
        ])
        .stdout(Stdio::piped())
        .stderr(Stdio::null())
        .spawn()
        .expect("spawn worker");
    let out = child.stdout.take().expect("stdout");
    std::thread::spawn(move || {
        let rd = BufReader::new(out);
        for line in rd.lines() {
            match line {
                Ok(l) => {
                    if tx.send(Msg::Line(w, l)).is_err() {
                        return;
                    }
                }
                Err(_) => break,
            }
        }
        let _ = tx.send(Msg::Eof(w, None, None));
    });
    child
}

pub fn verif_dir() -> std::path::PathBuf {
    std::env::var("VERIF_DIR")
        .map(std::path::PathBuf::from)
        .unwrap_or_else(|_| std::path::PathBuf::from("/verif"))
}

/// `evidence` / `replays` under the verif dir, or under VERIF_OUT_DIR when set (used when a
/// check is run against a deliberately broken tree, so the committed evidence stays as is)
fn out_dir(name: &str) -> std::path::PathBuf {
    match std::env::var("VERIF_OUT_DIR") {
        Ok(d) => std::path::PathBuf::from(d).join(name),
        Err(_) => verif_dir().join(name),
    }
}

fn load_known() -> Vec<(String, String, String)> {
    let p = verif_dir().join("known_findings.json");
    let Ok(s) = std::fs::read_to_string(p) else {
        return vec![];
    };
    let Ok(v) = serde_json::from_str::<Value>(&s) else {
        return vec![];
    };
    let mut out = vec![];
    if let Some(a) = v.get("findings").and_then(|f| f.as_array()) {
        for f in a {
            let g = |k: &str| f.get(k).and_then(|x| x.as_str()).unwrap_or("").to_string();
            out.push((g("property"), g("fingerprint"), g("what")));
        }
    }
    out
}

/// Re-run a crashed run index in trace mode; returns (last sub started, artefacts) if it dies again.
fn localise_crash(exe: &std::path::Path, id: &str, tier: Tier, seed: u64, idx: u64) -> (Option<u64>, Value, bool) {
    let (tx, rx) = mpsc::channel::<Msg>();
    let mut child = spawn_worker2(exe, id, tier, seed, idx, idx + 1, 1, 600, 0, tx, true);
    let mut last_sub = None;
    let mut arts = serde_json::Map::new();
    let start = Instant::now();
    let mut died = false;
    loop {
        match rx.recv_timeout(Duration::from_secs(2)) {
            Ok(Msg::Line(_, l)) => {
                if let Some(rest) = l.strip_prefix("T ") {
                    last_sub = rest.split_whitespace().nth(1).and_then(|s| s.parse().ok());
                } else if let Some(rest) = l.strip_prefix("A ") {
                    let mut it = rest.splitn(2, ' ');
                    if let (Some(k), Some(v)) = (it.next(), it.next()) {
                        arts.insert(k.to_string(), Value::String(v.to_string()));
                    }
                }
            }
            Ok(Msg::Eof(..)) => {
                let st = child.wait().ok();
                died = !st.map(|s| s.success()).unwrap_or(false);
                break;
            }
            Err(_) => {
                if start.elapsed() > Duration::from_secs(400) {
                    let _ = child.kill();
                    died = true;
                }
            }
        }
    }
    (last_sub, Value::Object(arts), died)
}

/// Parent: run the whole check, write evidence, print verdict lines, return exit code.
pub fn check(p: &dyn Property, tier: Tier, seed: u64) -> i32 {
    let meta = p.meta();
    let t0 = Instant::now();
    let total = p.runs(tier);
    let budget: u64 = std::env::var("VERIF_BUDGET_S")
        .ok()
        .and_then(|s| s.parse().ok())
        .unwrap_or(match tier {
            Tier::Quick => 150,
            Tier::Thorough => 1500,
        });
    let nw = p
        .workers()
        .min(total.max(1) as usize)
        .min(std::env::var("VERIF_WORKERS").ok().and_then(|s| s.parse().ok()).unwrap_or(16));
    let exe = std::env::current_exe().expect("exe");
    let (tx, rx) = mpsc::channel::<Msg>();
    let mut children: Vec<Option<std::process::Child>> = Vec::new();
    // per worker: (current S idx, time of S)
    let mut cur: Vec<Option<(u64, Instant)>> = vec![None; nw];
    // (run index, CPU seconds of the worker when the watchdog first saw that run)
    let mut cur_cpu: Vec<(u64, f64)> = vec![(u64::MAX, 0.0); nw];
    let mut finished = vec![false; nw];
    let mut killed = vec![false; nw];
    let mut last_x: Vec<Option<String>> = vec![None; nw];
    for w in 0..nw {
        children.push(Some(spawn_worker(
            &exe, meta.id, tier, seed, w as u64, total, nw as u64, budget, w, tx.clone(),
        )));
    }
    let mut agg = Agg {
        evals: 0,
        keys: HashSet::new(),
        faults: BTreeMap::new(),
        probes: BTreeMap::new(),
        steps: 0,
        sim_time_s: 0,
        inter: HashSet::new(),
        digest: 0,
        samples: vec![],
        runs_done: 0,
        violations: vec![],
        harness_errors: vec![],
        truncated: false,
        crashes: 0,
    };
    let hang_limit = Duration::from_secs(
        std::env::var("VERIF_HANG_S").ok().and_then(|s| s.parse().ok()).unwrap_or(180),
    );
    let mut per_run_digest: BTreeMap<u64, String> = BTreeMap::new();
    loop {
        if finished.iter().all(|f| *f) {
            break;
        }
        match rx.recv_timeout(Duration::from_secs(2)) {
            Ok(Msg::Line(w, l)) => {
                if let Some(rest) = l.strip_prefix("S ") {
                    cur[w] = rest.trim().parse().ok().map(|i| (i, Instant::now()));
                } else if let Some(rest) = l.strip_prefix("R ") {
                    cur[w] = None;
                    if let Ok(v) = serde_json::from_str::<Value>(rest) {
                        agg.runs_done += 1;
                        agg.evals += v["evals"].as_u64().unwrap_or(0);
                        parse_keys(v["keys"].as_str().unwrap_or(""), &mut agg.keys);
                        parse_keys(v["inter"].as_str().unwrap_or(""), &mut agg.inter);
                        if let Some(m) = v["faults"].as_object() {
                            for (k, n) in m {
                                *agg.faults.entry(k.clone()).or_insert(0) += n.as_u64().unwrap_or(0);
                            }
                        }
                        if let Some(m) = v["probes"].as_object() {
                            for (k, n) in m {
                                *agg.probes.entry(k.clone()).or_insert(0) += n.as_u64().unwrap_or(0);
                            }
                        }
                        agg.steps += v["steps"].as_u64().unwrap_or(0);
                        agg.sim_time_s += v["sim_time_s"].as_u64().unwrap_or(0);
                        let idx = v["idx"].as_u64().unwrap_or(0);
                        per_run_digest.insert(idx, v["digest"].as_str().unwrap_or("").to_string());
                        if !v["sample"].is_null() && (agg.samples.len() < 5 || idx < 3) && agg.samples.len() < 8 {
                            agg.samples.push(v["sample"].clone());
                        }
                        if let Some(e) = v["harness_error"].as_str() {
                            agg.harness_errors.push(format!("run {idx}: {e}"));
                        }
                        if let Some(a) = v["violations"].as_array() {
                            for viol in a {
                                let mut viol = viol.clone();
                                if let Value::Object(m) = &mut viol {
                                    m.insert("idx".into(), json!(idx));
                                    if !m.contains_key("artefacts") {
                                        m.insert("artefacts".into(), v["artefacts"].clone());
                                    }
                                    m.insert("mask".into(), v["mask"].clone());
                                    m.insert("schedule".into(), v["schedule"].clone());
                                }
                                agg.violations.push(viol);
                            }
                        }
                    }
                } else if let Some(rest) = l.strip_prefix("X ") {
                    last_x[w] = Some(rest.to_string());
                } else if l.starts_with("D ") {
                    agg.truncated = true;
                } else if l == "F" {
                    // normal end follows with Eof
                }
            }
            Ok(Msg::Eof(w, _, _)) => {
                let status = children[w].as_mut().and_then(|c| c.wait().ok());
                children[w] = None;
                let ok = status.map(|s| s.success()).unwrap_or(false);
                if let (false, Some((idx, _)), true) = (ok, cur[w], killed[w]) {
                    // killed by the hang watchdog (already recorded): continue after it
                    killed[w] = false;
                    cur[w] = None;
                    agg.runs_done += 1;
                    let next = idx + nw as u64;
                    if next < total {
                        let spent = t0.elapsed().as_secs();
                        children[w] = Some(spawn_worker(
                            &exe, meta.id, tier, seed, next, total, nw as u64,
                            budget.saturating_sub(spent).max(1), w, tx.clone(),
                        ));
                    } else {
                        finished[w] = true;
                    }
                } else if let (false, Some((idx, _))) = (ok, cur[w]) {
                    // died inside run idx: observation
                    agg.crashes += 1;
                    use std::os::unix::process::ExitStatusExt;
                    let sig = status.and_then(|s| s.signal());
                    let code = status.and_then(|s| s.code());
                    agg.runs_done += 1;
                    let (sub, arts, again) = localise_crash(&exe, meta.id, tier, seed, idx);
                    let x = last_x[w].take();
                    let fp = match &x {
                        Some(x) if x.starts_with("alloc ") => {
                            format!("alloc:{}", x.split_whitespace().nth(2).unwrap_or("unknown"))
                        }
                        _ => format!("crash:{}", sig.map(|s| format!("signal{s}")).unwrap_or_else(|| format!("exit{}", code.unwrap_or(-1)))),
                    };
                    agg.violations.push(json!({
                        "idx": idx, "sub": sub, "observed": x,
                        "fingerprint": fp,
                        "clause": "G2 no process abort",
                        "detail": { "signal": sig, "exit_code": code, "reproduced_in_trace_mode": again },
                        "artefacts": arts,
                        "crash": true,
                    }));
                    cur[w] = None;
                    let next = idx + nw as u64;
                    if next < total {
                        let spent = t0.elapsed().as_secs();
                        children[w] = Some(spawn_worker(
                            &exe, meta.id, tier, seed, next, total, nw as u64,
                            budget.saturating_sub(spent).max(1), w, tx.clone(),
                        ));
                    } else {
                        finished[w] = true;
                    }
                } else {
                    if !ok && cur[w].is_none() && status.is_some() {
                        agg.harness_errors.push(format!("worker {w} exited abnormally outside a run: {status:?}"));
                    }
                    finished[w] = true;
                }
            }
            Err(mpsc::RecvTimeoutError::Timeout) => {}
            Err(_) => break,
        }
        // hang watchdog.  A run is hung when it has burnt more CPU than the limit, or when it has
        // taken longer than the limit stretched by how oversubscribed the machine is (a busy
        // machine must not turn a slow run into an alarm).
        let stretch = {
            let load = std::fs::read_to_string("/proc/loadavg").ok().and_then(|s| s.split_whitespace().next().and_then(|x| x.parse::<f64>().ok())).unwrap_or(0.0);
            let cpus = std::thread::available_parallelism().map(|n| n.get()).unwrap_or(1) as f64;
            (2.0 * load / cpus).max(1.0)
        };
        for w in 0..nw {
            if let Some((idx, since)) = cur[w] {
                let cpu_now = children[w].as_ref().map(|c| proc_cpu_seconds(c.id())).unwrap_or(0.0);
                if cur_cpu[w].0 != idx {
                    cur_cpu[w] = (idx, cpu_now);
                }
                let cpu_used = cpu_now - cur_cpu[w].1;
                if cpu_used > hang_limit.as_secs_f64() || since.elapsed().as_secs_f64() > hang_limit.as_secs_f64() * stretch {
                    if killed[w] {
                        continue;
                    }
                    if let Some(c) = children[w].as_mut() {
                        let _ = c.kill();
                    }
                    killed[w] = true;
                    agg.violations.push(json!({
                        "idx": idx, "sub": Value::Null, "fingerprint": "hang",
                        "clause": "G3 bounded steps", "detail": { "wall_s": since.elapsed().as_secs(), "cpu_s": cpu_used as u64, "limit_s": hang_limit.as_secs(), "load_stretch": (stretch * 10.0).round() / 10.0 }, "crash": true,
                    }));
                    cur[w] = Some((idx, Instant::now())); // Eof handler will restart
                }
            }
        }
    }
    // combined digest over runs in index order
    for (i, d) in &per_run_digest {
        agg.digest = crate::rng::hash_str(&format!("{:016x}{}{}", agg.digest, i, d));
    }

    finish(p, tier, seed, total, agg, t0)
}

/// CPU seconds (user + system, own and waited-for children) of process `pid`
fn proc_cpu_seconds(pid: u32) -> f64 {
    let Ok(s) = std::fs::read_to_string(format!("/proc/{pid}/stat")) else { return 0.0 };
    // fields after the command name in parentheses
    let Some(rest) = s.rsplit_once(')').map(|x| x.1) else { return 0.0 };
    let f: Vec<&str> = rest.split_whitespace().collect();
    // utime stime cutime cstime are fields 14-17 of the line, i.e. 11-14 after the ')'
    let ticks: f64 = (11..15).filter_map(|i| f.get(i).and_then(|x| x.parse::<f64>().ok())).sum();
    ticks / 100.0
}

fn write_replay(meta: &Meta, tier: Tier, seed: u64, v: &Value) -> String {
    let dir = out_dir("replays");
    let _ = std::fs::create_dir_all(&dir);
    let idx = v["idx"].as_u64().unwrap_or(0);
    let fp = v["fingerprint"].as_str().unwrap_or("");
    let sub = v["sub"].as_u64();
    let name = format!(
        "{}-{}-{}-{}-{:08x}.json",
        meta.id,
        tier.name(),
        seed,
        idx,
        crate::rng::hash_str(fp) as u32
    );
    let path = dir.join(&name);
    let body = json!({
        "property": meta.id, "tier": tier.name(), "verif_seed": seed, "run": idx, "sub": sub,
        "run_seed": format!("{:016x}", crate::rng::run_seed(seed, meta.id, tier.name(), idx)),
        "fingerprint": fp, "clause": v["clause"], "detail": v["detail"],
        "mask": v["mask"], "schedule": v["schedule"], "artefacts": v["artefacts"],
        "replay_cmd": format!("./bin/check {} --replay replays/{}", meta.id, name),
    });
    let _ = std::fs::write(&path, serde_json::to_string_pretty(&body).unwrap_or_default());
    path.to_string_lossy().to_string()
}

fn finish(p: &dyn Property, tier: Tier, seed: u64, total: u64, agg: Agg, t0: Instant) -> i32 {
    let meta = p.meta();
    let known = load_known();
    let wall = t0.elapsed().as_secs_f64();
    let mut exit = 0;
    let mut seen_fp: HashSet<String> = HashSet::new();
    let mut new_violations = 0;
    let mut known_hits: BTreeMap<String, u64> = BTreeMap::new();
    let mut lines = Vec::new();
    let mut viols = agg.violations.clone();
    viols.sort_by_key(|v| (v["idx"].as_u64().unwrap_or(0), v["sub"].as_u64().unwrap_or(0)));
    for v in &viols {
        let fp = v["fingerprint"].as_str().unwrap_or("").to_string();
        let is_crash = v["crash"].as_bool().unwrap_or(false)
            || fp.starts_with("panic:")
            || fp.starts_with("alloc:")
            || fp.starts_with("steps:");
        // "@Cnn:rest": a violation of another property observed by this check's workload
        let (other, fp) = match fp.strip_prefix('@').and_then(|r| r.split_once(':')) {
            Some((p, rest)) if p.len() == 3 && p.starts_with('C') => (Some(p.to_string()), rest.to_string()),
            _ => (None, fp),
        };
        let other_s;
        let prop = if let Some(o) = &other {
            other_s = o.clone();
            other_s.as_str()
        } else if is_crash {
            meta.crash_prop
        } else {
            meta.id
        };
        let key = format!("{prop} {fp}");
        if let Some((_, _, what)) = known.iter().find(|(kp, kf, _)| kp == prop && *kf == fp) {
            let e = known_hits.entry(key.clone()).or_insert(0);
            *e += 1;
            if *e == 1 {
                lines.push(format!("KNOWN-FINDING: property={prop} {what} [{fp}]"));
            }
            continue;
        }
        if !seen_fp.insert(key) {
            continue;
        }
        new_violations += 1;
        let path = write_replay(&meta, tier, seed, v);
        lines.push(format!("VIOLATION property={prop} replay={path}"));
        lines.push(format!(
            "  fingerprint={fp} clause={} detail={}",
            v["clause"].as_str().unwrap_or(""),
            serde_json::to_string(&v["detail"]).unwrap_or_default().chars().take(400).collect::<String>()
        ));
        exit = 1;
    }
    if !agg.harness_errors.is_empty() {
        for e in agg.harness_errors.iter().take(10) {
            lines.push(format!("HARNESS-ERROR {e}"));
        }
        if exit == 0 {
            exit = 2;
        }
    }
    let complete = agg.runs_done >= total && !agg.truncated;
    let runs_per_hour = if wall > 0.0 { agg.evals as f64 / wall * 3600.0 } else { 0.0 };
    let zero_probes: Vec<&String> = agg.probes.iter().filter(|(_, v)| **v == 0).map(|(k, _)| k).collect();
    for z in &zero_probes {
        lines.push(format!("WARNING probe {z} stayed at 0"));
    }
    let mut samples = agg.samples.clone();
    if samples.is_empty() {
        samples.push(json!({"note": "no sample recorded"}));
    }
    let ev = json!({
        "property_id": meta.id,
        "tier": tier.name(),
        "seed": seed,
        "level": meta.level,
        "coverage": {
            "evaluations": agg.evals,
            "distinct_nontrivial": agg.keys.len(),
            "distinct_nontrivial_is_lower_bound": agg.keys.len() >= KEY_CAP,
            "rule": meta.rule,
            "samples": samples,
            "exhaustive": complete && p.exhaustive(tier),
            "runs_planned": total,
            "runs_done": agg.runs_done,
            "truncated_by_budget": agg.truncated,
            "evaluations_per_hour": runs_per_hour.round(),
            "seeds": format!("VERIF_SEED={seed}; run seeds H(seed, property, tier, 0..{})", total),
            "fault_counts": agg.faults,
            "probes": agg.probes,
            "simulated_steps": agg.steps,
            "simulated_time_covered_s": agg.sim_time_s,
            "distinct_interleavings": agg.inter.len(),
            "worker_crashes_observed": agg.crashes,
            "real_components": meta.real,
            "stubbed_components": meta.stubbed,
            "determinism_digest": format!("{:016x}", agg.digest),
            "known_findings_hit": known_hits,
        },
        "assumptions": meta.assumptions,
        "wall_s": (wall * 100.0).round() / 100.0,
        "violations": new_violations,
    });
    let evdir = out_dir("evidence");
    let _ = std::fs::create_dir_all(&evdir);
    let _ = std::fs::write(
        evdir.join(format!("{}.json", meta.id)),
        serde_json::to_string_pretty(&ev).unwrap_or_default(),
    );
    for l in &lines {
        println!("{l}");
    }
    println!(
        "{} {} seed={} runs={}/{} evals={} distinct_nontrivial={} violations={} known={} wall={:.1}s digest={:016x}",
        meta.id, tier.name(), seed, agg.runs_done, total, agg.evals, agg.keys.len(), new_violations,
        known_hits.len(), wall, agg.digest
    );
    exit
}

/// Replay one file in this process (the caller forks us as a fresh process).
pub fn replay(p: &dyn Property, path: &str) -> i32 {
    use base64::Engine;
    let b64 = base64::engine::general_purpose::STANDARD;
    let Ok(s) = std::fs::read_to_string(path) else {
        eprintln!("cannot read {path}");
        return 2;
    };
    let Ok(v) = serde_json::from_str::<Value>(&s) else {
        eprintln!("cannot parse {path}");
        return 2;
    };
    let tier = Tier::parse(v["tier"].as_str().unwrap_or("quick"));
    let seed = v["verif_seed"].as_u64().unwrap_or(1);
    let idx = v["run"].as_u64().unwrap_or(0);
    let mut ctx = new_ctx(p, tier, seed, idx);
    ctx.only_sub = v["sub"].as_u64();
    if let Some(m) = v["mask"].as_array() {
        ctx.mask = Some(m.iter().map(|b| b.as_bool().unwrap_or(true)).collect());
    }
    if let Some(m) = v["schedule"].as_array() {
        ctx.schedule_in = Some(m.iter().map(|b| b.as_u64().unwrap_or(0) as u32).collect());
    }
    if let Some(m) = v["artefacts"].as_object() {
        for (k, x) in m {
            if let Some(bytes) = x.as_str().and_then(|s| b64.decode(s).ok()) {
                ctx.artefacts_in.insert(k.clone(), bytes);
            }
        }
    }
    let want = v["fingerprint"].as_str().unwrap_or("").to_string();
    println!("S {idx}");
    let out = p.run(&mut ctx);
    let meta = p.meta();
    let mut hit = false;
    if let Some(e) = &out.harness_error {
        println!("HARNESS-ERROR in replay: {e}");
        return 2;
    }
    for (sub, viol) in &out.violations {
        println!(
            "replayed violation sub={sub} fingerprint={} clause={} detail={}",
            viol.fingerprint, viol.clause, viol.detail
        );
        if viol.fingerprint == want {
            hit = true;
        }
    }
    if hit {
        println!("VIOLATION property={} replay={path}", meta.id);
        1
    } else {
        println!("replay of {path}: violation {want} NOT reproduced ({} evaluations)", out.evals);
        0
    }
}
