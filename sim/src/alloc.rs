//! Counting allocator: per-thread peak and largest single request; refuses absurd requests so
//! that an attacker-controlled length becomes an observation instead of an OOM kill.

use std::{
    alloc::{GlobalAlloc, Layout, System},
    cell::Cell,
};

pub struct Counting;

/// single requests at or above this are refused (=> abort, observed by the parent)
pub const REFUSE: usize = 1 << 30;

thread_local! {
    static CUR: Cell<usize> = const { Cell::new(0) };
    static PEAK: Cell<usize> = const { Cell::new(0) };
    static LARGEST: Cell<usize> = const { Cell::new(0) };
    static BUSY: Cell<bool> = const { Cell::new(false) };
}

fn on_alloc(size: usize) {
    let _ = CUR.try_with(|c| {
        let n = c.get().saturating_add(size);
        c.set(n);
        let _ = PEAK.try_with(|p| {
            if n > p.get() {
                p.set(n)
            }
        });
    });
    let _ = LARGEST.try_with(|l| {
        if size > l.get() {
            l.set(size)
        }
    });
}

fn on_free(size: usize) {
    let _ = CUR.try_with(|c| c.set(c.get().saturating_sub(size)));
}

fn report_refusal(size: usize) {
    let busy = BUSY.try_with(|b| b.replace(true)).unwrap_or(true);
    if busy {
        return;
    }
    let bt = std::backtrace::Backtrace::force_capture().to_string();
    let site = crate::stream::site_from_backtrace(&bt);
    use std::io::Write;
    let _ = writeln!(std::io::stdout(), "X alloc {size} {site}");
    let _ = std::io::stdout().flush();
    let _ = BUSY.try_with(|b| b.set(false));
}

unsafe impl GlobalAlloc for Counting {
    unsafe fn alloc(&self, l: Layout) -> *mut u8 {
        if l.size() >= REFUSE {
            report_refusal(l.size());
            return std::ptr::null_mut();
        }
        let p = System.alloc(l);
        if !p.is_null() {
            on_alloc(l.size());
        }
        p
    }
    unsafe fn dealloc(&self, p: *mut u8, l: Layout) {
        System.dealloc(p, l);
        on_free(l.size());
    }
    unsafe fn alloc_zeroed(&self, l: Layout) -> *mut u8 {
        if l.size() >= REFUSE {
            report_refusal(l.size());
            return std::ptr::null_mut();
        }
        let p = System.alloc_zeroed(l);
        if !p.is_null() {
            on_alloc(l.size());
        }
        p
    }
    unsafe fn realloc(&self, p: *mut u8, l: Layout, new: usize) -> *mut u8 {
        if new >= REFUSE {
            report_refusal(new);
            return std::ptr::null_mut();
        }
        let q = System.realloc(p, l, new);
        if !q.is_null() {
            on_free(l.size());
            on_alloc(new);
        }
        q
    }
}

/// Reset this thread's peak / largest counters; returns nothing.
pub fn reset() {
    CUR.with(|c| {
        let cur = c.get();
        PEAK.with(|p| p.set(cur));
    });
    LARGEST.with(|l| l.set(0));
}

/// (bytes allocated above the level at reset: peak - current-at-reset is approximated by peak, largest single request)
pub fn peak_and_largest() -> (usize, usize) {
    (PEAK.with(|p| p.get()), LARGEST.with(|l| l.get()))
}

pub fn current() -> usize {
    CUR.with(|c| c.get())
}
